//! C13 / C14: `SharedHistory` (update, push_delta, delta_since), the RTR
//! facing `PayloadSource::diff` and `GET /json-delta` against the Lean model,
//! with the property oracles evaluated on the real answers.

use std::collections::BTreeMap;
use std::sync::Arc;
use rpki::rtr::payload::Action;
use rpki::rtr::server::{NotifySender, PayloadDiff, PayloadSource};
use rpki::rtr::{Serial, State};
use routinator::http::verif_api::Handler;
use routinator::metrics::{Metrics, RtrServerMetrics};
use routinator::payload::{SharedHistory, ValidationReport};
use routinator::slurm::LocalExceptions;
use serde_json::{json, Value};
use rvcore::payload_gen::{gen_set, mutate_set, AbsSet, Universe};
use rvcore::{Ctx, Rng};
use crate::items::{
    actions_of_lists, apply_actions, exceptions, item_of, item_set, join,
    make_config, show_actions, show_delta, show_items, snapshot, Actions,
    Item, ItemSet, JsonItems,
};

//------------ generator -----------------------------------------------------

const KEEPS: [u64; 9] = [0, 1, 2, 3, 5, 10, 65535, 0, 1];
const SEEDS: [u32; 12] = [
    0xffff_ffff, 0xffff_fffe, 0xffff_fffd, 0xffff_fff0, 0x7fff_ffff, 0x7fff_fffe,
    0x8000_0000, 0x8000_0001, 0, 1, 2, 0x1234_5678,
];

/// Client serials around every branch of `delta_since`, relative to the
/// expected current serial `s`, the expected number of retained deltas `n`
/// and the configured history size.
fn boundary_serials(rng: &mut Rng, s: u32, n: u32, keep: u64) -> Vec<u32> {
    let k = keep.min(0x7fff_0000) as u32;
    let mut v = Vec::new();
    for d in [0, 1, 2, 3, n.saturating_sub(1), n, n + 1, k.saturating_sub(1), k, k + 1] {
        v.push(s.wrapping_sub(d));
    }
    for d in [1u32, 2, 0x7fff_ffff, 0x8000_0000, 0x8000_0001, 0xffff_fffe] {
        v.push(s.wrapping_add(d));
    }
    let oldest = s.wrapping_sub(n.saturating_sub(1));
    v.push(oldest ^ 0x8000_0000);
    v.push(oldest.wrapping_sub(1) ^ 0x8000_0000);
    v.push(oldest.wrapping_add(0x7fff_ffff));
    v.extend([0, 1, 0x7fff_ffff, 0x8000_0000, 0xffff_ffff]);
    v.push(rng.next() as u32);
    v.sort();
    v.dedup();
    v
}

fn gen_history(ctx: &mut Ctx, uni: &Universe, i: usize, queries: bool) -> Value {
    let mut rng = ctx.rng.fork();
    let keep = if i % 37 == 36 { 100_000 } else { KEEPS[i % KEEPS.len()] };
    let cfg = if keep > 65535 || rng.chance(1, 2) { "cli" } else { "file" };
    let session: u64 = match i % 11 {
        0 => 0x6500_0000,               // rtr session 0
        1 => 0x6500_ffff,               // rtr session 0xffff
        _ => 1_600_000_000 + rng.below(1 << 24),
    };
    let rtr_session = (session & 0xffff) as u16;
    let updates = match i % 5 {
        0 => 1 + rng.below(3),
        1 | 2 => 2 + rng.below(6),
        3 => keep.min(10) + 1 + rng.below(4),
        _ => 4 + rng.below(12),
    } as usize;
    let customers = if i % 3 == 0 { 0 } else { 6 };
    let seed_at: Option<usize> = if i % 2 == 1 { Some(rng.below(updates as u64) as usize) } else { None };

    let mut ops: Vec<Value> = Vec::new();
    let mut cur: Option<AbsSet> = None;
    let mut past: Vec<AbsSet> = Vec::new();
    // expected serial / number of retained deltas (for picking client serials only)
    let mut exp_serial: u32 = 0;
    let mut exp_n: u32 = 0;
    let cap = keep.max(1).min(u32::MAX as u64) as u32;
    if queries && rng.chance(1, 4) {
        // before the first update: RTR still answers for serial 0
        ops.push(json!({"q": [rtr_session, 0]}));
        ops.push(json!({"q": [rtr_session, 1]}));
        ops.push(json!({"h": [session, 0]}));
    }
    for step in 0..updates {
        let next = match cur.as_ref() {
            None => gen_set(&mut rng, uni, [0, 2, 4, 6][i % 4], customers),
            Some(c) => match rng.below(10) {
                0 | 1 => c.clone(),
                2 if !past.is_empty() => rng.pick(&past).clone(),
                _ => mutate_set(&mut rng, uni, c, customers.max(1)),
            }
        };
        let next = if customers == 0 { AbsSet { aspas: Vec::new(), ..next } } else { next };
        let via = if next.aspas.is_empty() && rng.chance(2, 3) { "slurm" } else { "hook" };
        ops.push(json!({"u": next.to_json(), "via": via}));
        if let Some(c) = cur.as_ref() {
            if *c != next {
                exp_serial = exp_serial.wrapping_add(1);
                exp_n = (exp_n + 1).min(cap);
            }
            past.push(c.clone());
        }
        cur = Some(next);
        if seed_at == Some(step) {
            let x = SEEDS[(i / 2 + step) % SEEDS.len()];
            ops.push(json!({"s": x}));
            exp_serial = x;
            exp_n = 1;
        }
        if queries && (step + 1 == updates || rng.chance(1, 2)) {
            let serials = boundary_serials(&mut rng, exp_serial, exp_n, keep);
            let http_all = rng.chance(1, 3);
            for c in &serials {
                ops.push(json!({"q": [rtr_session, c]}));
                if http_all || rng.chance(1, 8) {
                    ops.push(json!({"h": [session, c]}));
                }
            }
            // foreign sessions with serials that would otherwise be answered
            for c in [exp_serial, exp_serial.wrapping_sub(1)] {
                ops.push(json!({"q": [rtr_session.wrapping_add(1 + rng.below(65535) as u16), c]}));
                ops.push(json!({"h": [session ^ (1u64 << rng.below(40)), c]}));
            }
            // same low 16 bits, different 64-bit session: RTR cannot tell, HTTP must
            ops.push(json!({"h": [session + 0x1_0000, exp_serial.wrapping_sub(1)]}));
            if rng.chance(1, 4) { ops.push(json!({"h": null})); }
        }
    }
    json!({"keep": keep, "cfg": cfg, "session": session, "ops": ops})
}

//------------ running a history ---------------------------------------------

/// What the oracle remembers of the session: the data set installed under
/// every serial issued since the last (re)start of the numbering, and the
/// serials created by changes, oldest first.
struct Memory {
    issued: BTreeMap<u32, ItemSet>,
    chain: Vec<u32>,
    cur: Option<ItemSet>,
    seeded: bool,
}

fn abs_item_set(uni: &Universe, set: &AbsSet) -> ItemSet {
    let mut res = ItemSet::new();
    for i in &set.origins { res.insert(Item::Origin(uni.origin_rank[*i]).key()); }
    for i in &set.router_keys { res.insert(Item::RouterKey(uni.key_rank[*i]).key()); }
    for (c, p) in &set.aspas { res.insert(Item::Aspa(*c, p.clone()).key()); }
    res
}

fn set_fields(uni: &Universe, set: &AbsSet) -> String {
    uni.model_fields(set).join("|")
}

fn diff_actions(uni: &Universe, diff: &mut impl PayloadDiff) -> Actions {
    let mut res = Vec::new();
    while let Some((p, a)) = diff.next() {
        res.push((item_of(uni, p), a));
    }
    res
}

fn serial_class(mem: &Memory, cur: u32, c: u32) -> &'static str {
    let ahead = c.wrapping_sub(cur);
    if ahead == 0x8000_0000 { "distance-2^31" }
    else if mem.chain.iter().any(|s| s.wrapping_sub(c) == 0x8000_0000) { "distance-2^31-from-retained" }
    else if ahead != 0 && ahead < 0x8000_0000 { "future" }
    else { "unknown-past" }
}

struct Runner<'a> {
    uni: &'a Universe,
    json: JsonItems,
    c13: bool,
}

impl<'a> Runner<'a> {
    /// Runs one history script; records the case and applies the oracles.
    fn run(&self, ctx: &mut Ctx, input: &Value) {
        let uni = self.uni;
        let comp = if self.c13 { "c13" } else { "c14" };
        let keep = input["keep"].as_u64().unwrap_or(0);
        let session = input["session"].as_u64().unwrap_or(0);
        let via_cli = input["cfg"].as_str() == Some("cli");
        let empty: Vec<Value> = Vec::new();
        let ops = input["ops"].as_array().unwrap_or(&empty);

        // history-size through the real option parsers
        let opt = [(if via_cli { "history" } else { "history-size" }, keep.to_string())];
        let config = if via_cli { make_config(comp, &[], &opt) } else { make_config(comp, &opt, &[]) };
        let config = match config {
            Ok(config) => config,
            Err(err) => {
                ctx.count("config:rejected");
                ctx.case_oracle_only(input, &format!("config rejected: {err}"));
                return
            }
        };
        if config.history_size as u64 != keep {
            ctx.oracle_fail("config-history-size", "parsed history size differs from the option value",
                input, json!(config.history_size));
        }
        rvcore::clock::set(session as i64, 0);
        let history = SharedHistory::from_config(&config);
        let handler = Handler::new(
            &config, history.clone(), Arc::new(RtrServerMetrics::new(false)), NotifySender::new()
        );
        let bound = keep.max(1) as usize;
        let mut mem = Memory { issued: BTreeMap::new(), chain: Vec::new(), cur: None, seeded: false };
        let mut op_parts: Vec<String> = Vec::new();
        let mut imp_parts: Vec<String> = Vec::new();
        let mut changes = 0usize;
        let mut max_retained = 0usize;
        let mut answered = 0usize;
        let mut merged_max = 0usize;
        let mut wrapped = false;

        for op in ops {
            if let Some(set) = op.get("u") {
                let set = AbsSet::from_json(set);
                let hook = op["via"].as_str() != Some("slurm") || !set.aspas.is_empty();
                let before_serial = u32::from(history.read().serial());
                let was_active = history.read().is_active();
                let added = if hook {
                    SharedHistory::verif_set_next_snapshot(Some(snapshot(uni, &set, None)));
                    history.update(ValidationReport::new(&config), &LocalExceptions::empty(), Metrics::new())
                } else {
                    history.update(ValidationReport::new(&config), &exceptions(uni, &set), Metrics::new())
                };
                SharedHistory::verif_set_next_snapshot(None);
                ctx.count(if hook { "update:via-hook" } else { "update:via-slurm" });
                let serial = u32::from(history.read().serial());
                let serials = history.verif_delta_serials();
                let installed = history.read().current().map(|s| item_set(uni, &s)).unwrap_or_default();
                if installed != abs_item_set(uni, &set) {
                    // neither SLURM assertions nor the snapshot hook should alter the set
                    ctx.oracle_fail("installed-set-differs", "the installed data set is not the requested one",
                        input, json!({"installed": installed, "requested": set.to_json()}));
                }
                op_parts.push(format!("U {}", set_fields(uni, &set)));
                imp_parts.push(format!("u{} {} [{}]", added as u8, serial,
                    join(&serials.iter().map(|s| u32::from(*s)).collect::<Vec<_>>(), ",")));

                // --- C14 oracle: serial steps and bounded history
                let changed = was_active && mem.cur.as_ref() != Some(&installed);
                let observed = json!({"added": added, "serial_before": before_serial, "serial": serial,
                    "retained": serials.len()});
                if self.c13 {
                    // C14's oracle is applied by the c14 component only.
                }
                else if !was_active {
                    if !mem.seeded && serial != 0 {
                        ctx.oracle_fail("first-serial-not-zero", "the first data set does not have serial 0",
                            input, observed.clone());
                    }
                    if !added {
                        ctx.oracle_fail("first-not-reported", "first data set not reported as new version",
                            input, observed.clone());
                    }
                }
                else if changed {
                    if serial != before_serial.wrapping_add(1) {
                        ctx.oracle_fail("serial-step-not-one",
                            "the data set changed but the serial did not increase by exactly one",
                            input, observed.clone());
                    }
                    if !added {
                        ctx.oracle_fail("change-not-reported", "changed data set not reported (no notify)",
                            input, observed.clone());
                    }
                }
                else if serial != before_serial || added {
                    ctx.oracle_fail("serial-moved-without-change",
                        "the data set did not change but the serial moved / a new version was reported",
                        input, observed.clone());
                }
                if !self.c13 && serials.len() > bound {
                    ctx.oracle_fail(
                        if keep == 0 { "retained-exceeds-bound-keep0" } else { "retained-exceeds-bound" },
                        "more change sets retained than max(history-size, 1)", input, observed.clone());
                }
                max_retained = max_retained.max(serials.len());
                // bookkeeping
                if !was_active {
                    mem.issued.insert(serial, installed.clone());
                }
                else if changed {
                    changes += 1;
                    if serial < before_serial { wrapped = true }
                    mem.issued.insert(serial, installed.clone());
                    mem.chain.push(serial);
                }
                mem.cur = Some(installed);
                ctx.count(if !was_active { "update:first" } else if changed { "update:changed" } else { "update:unchanged" });
            }
            else if let Some(x) = op.get("s").and_then(|x| x.as_u64()) {
                let x = x as u32;
                let done = history.verif_seed_serial(Serial::from(x));
                let serial = u32::from(history.read().serial());
                let serials = history.verif_delta_serials();
                op_parts.push(format!("S {x}"));
                imp_parts.push(format!("s{} {} [{}]", done as u8, serial,
                    join(&serials.iter().map(|s| u32::from(*s)).collect::<Vec<_>>(), ",")));
                if done {
                    // The numbering restarts: the pushed empty delta declares that
                    // version x-1 had the current data.
                    let cur = mem.cur.clone().unwrap_or_default();
                    mem.issued.clear();
                    mem.issued.insert(x.wrapping_sub(1), cur.clone());
                    mem.issued.insert(x, cur);
                    mem.chain = vec![x];
                    mem.seeded = true;
                }
                ctx.count("seed");
            }
            else if let Some(q) = op.get("q").and_then(|x| x.as_array()) {
                let sess = q[0].as_u64().unwrap_or(0) as u16;
                let c = q[1].as_u64().unwrap_or(0) as u32;
                op_parts.push(format!("Q {sess} {c}"));
                let cur_serial = u32::from(history.read().serial());
                let rtr_session = history.read().rtr_session();
                let direct = history.read().delta_since(Serial::from(c));
                let res = history.diff(State::from_parts(sess, Serial::from(c)));
                match res {
                    None => {
                        imp_parts.push("q -".into());
                        ctx.count("rtr:refused");
                        if sess == rtr_session && mem.cur.is_some() {
                            self.oracle_refused(ctx, input, &mem, keep, cur_serial, c, "rtr");
                        }
                    }
                    Some((state, mut diff)) => {
                        let actions = diff_actions(uni, &mut diff);
                        let text = match direct.as_ref() {
                            Some(d) => show_delta(uni, d, &actions),
                            None => format!("s=? a=? w=? {}", show_actions(&actions)),
                        };
                        imp_parts.push(format!("q {} {} {}", state.session(), u32::from(state.serial()), text));
                        ctx.count("rtr:answered");
                        answered += 1;
                        merged_max = merged_max.max(cur_serial.wrapping_sub(c) as usize);
                        if sess != rtr_session {
                            ctx.oracle_fail("rtr-foreign-session-answered",
                                "diff answered a state with a foreign session id", input,
                                json!({"session": sess, "serial": c, "answer": text}));
                        }
                        else if mem.cur.is_some() {
                            // (before the first update `ready()` is false and the RTR
                            // server does not ask; only the model comparison applies)
                            if state.session() != rtr_session || u32::from(state.serial()) != cur_serial {
                                ctx.oracle_fail("rtr-wrong-tag",
                                    "answer is not tagged with the current session and serial", input,
                                    json!({"serial": c, "tag": [state.session(), u32::from(state.serial())]}));
                            }
                            self.oracle_answered(ctx, input, &mem, cur_serial, c, &actions, "rtr");
                        }
                    }
                }
            }
            else if let Some(hq) = op.get("h") {
                let (uri, version) = match hq.as_array() {
                    Some(a) => {
                        let s = a[0].as_u64().unwrap_or(0);
                        let c = a[1].as_u64().unwrap_or(0) as u32;
                        op_parts.push(format!("H {s} {c}"));
                        (format!("/json-delta?session={s}&serial={c}"), Some((s, c)))
                    }
                    None => { op_parts.push("H -".into()); ("/json-delta".to_string(), None) }
                };
                let cur_serial = u32::from(history.read().serial());
                let reply = futures::executor::block_on(handler.request("GET", &uri, &[]));
                let body: Vec<u8> = reply.frames.concat();
                if reply.status == 503 {
                    imp_parts.push("h init".into());
                    ctx.count("http:initial");
                    if mem.cur.is_some() {
                        ctx.oracle_fail("http-initial-after-first-update", "503 although data is available",
                            input, json!(uri));
                    }
                    continue
                }
                let doc: Value = match serde_json::from_slice(&body) {
                    Ok(doc) if reply.status == 200 => doc,
                    _ => {
                        imp_parts.push(format!("h status {} unparsable", reply.status));
                        ctx.count("http:unparsable");
                        continue
                    }
                };
                let rsess: u64 = doc["session"].as_str().and_then(|s| s.parse().ok()).unwrap_or(u64::MAX);
                let rserial = doc["serial"].as_u64().unwrap_or(u64::MAX);
                let announced = self.json.items(&doc["announced"]);
                if doc["reset"] == json!(true) {
                    let items = announced.unwrap_or_else(|e| vec![Item::Aspa(0, vec![e.len() as u32])]);
                    imp_parts.push(format!("h reset {} {} {}", rsess, rserial, show_items(&items)));
                    ctx.count("http:reset");
                    let set: ItemSet = items.iter().map(|x| x.key()).collect();
                    if rsess != session || rserial != cur_serial as u64 || Some(&set) != mem.cur.as_ref() {
                        ctx.oracle_fail("http-reset-not-current",
                            "full snapshot is not the current data tagged with the current session/serial",
                            input, json!({"uri": uri, "session": rsess, "serial": rserial}));
                    }
                    if let Some((s, c)) = version {
                        if s == session {
                            self.oracle_refused(ctx, input, &mem, keep, cur_serial, c, "http");
                        }
                    }
                }
                else {
                    let withdrawn = self.json.items(&doc["withdrawn"]);
                    let from = doc["fromSerial"].as_u64().unwrap_or(u64::MAX);
                    let actions = match (announced, withdrawn) {
                        (Ok(a), Ok(w)) => actions_of_lists(a, w),
                        (a, w) => vec![(Item::Aspa(0, vec![a.is_err() as u32, w.is_err() as u32]), Action::Announce)],
                    };
                    imp_parts.push(format!("h delta {} {} {} {}", rsess, from, rserial, show_actions(&actions)));
                    ctx.count("http:delta");
                    match version {
                        Some((s, c)) if s == session => {
                            if rsess != session || rserial != cur_serial as u64 || from != c as u64 {
                                ctx.oracle_fail("http-wrong-tag",
                                    "delta is not tagged with the session, the client serial and the current serial",
                                    input, json!({"uri": uri, "session": rsess, "from": from, "serial": rserial}));
                            }
                            self.oracle_answered(ctx, input, &mem, cur_serial, c, &actions, "http");
                        }
                        _ => ctx.oracle_fail("http-foreign-session-answered",
                            "a delta was served for a foreign or missing session", input, json!(uri)),
                    }
                }
            }
        }
        if self.c13 && mem.cur.is_some() {
            // Malformed or out-of-range versions must never be served a delta
            // (e.g. a serial of 2^32 must not alias serial 0). Oracle only.
            let cur_serial = u32::from(history.read().serial()) as u64;
            for query in [
                format!("session={}&serial={}", session, (1u64 << 32) + cur_serial),
                format!("session={}&serial={}", session, 1u64 << 32),
                format!("session={}&serial=-1", session),
                format!("session={}&serial={}&serial={}", session, cur_serial, cur_serial),
                format!("session={}", session),
                format!("serial={}", cur_serial),
                format!("session={}&serial={}", (1u128 << 64) + session as u128, cur_serial),
            ] {
                let uri = format!("/json-delta?{query}");
                let reply = futures::executor::block_on(handler.request("GET", &uri, &[]));
                let body: Vec<u8> = reply.frames.concat();
                let is_delta = reply.status == 200 && serde_json::from_slice::<Value>(&body)
                    .map(|doc| doc["reset"] == json!(false)).unwrap_or(false);
                ctx.count(&format!("http-malformed:status-{}", reply.status));
                if is_delta {
                    ctx.oracle_fail("http-malformed-version-answered",
                        "a malformed or out-of-range (session, serial) was served a change set",
                        input, json!(uri));
                }
            }
        }
        let op = format!("{} {} {}#{}", comp, keep, session, op_parts.join(";"));
        let imp = imp_parts.join(";");
        ctx.case(input, &op, &imp);
        if self.c13 {
            if answered > 0 && changes > 0 {
                ctx.nontrivial(format!("k{}/c{}/r{}/m{}/s{}/w{}", keep.min(11), changes.min(12),
                    max_retained.min(11), merged_max.min(11), mem.seeded, wrapped));
            }
        }
        else if changes > 0 {
            ctx.nontrivial(format!("k{}/c{}/r{}/s{}/w{}", keep.min(11), changes, max_retained, mem.seeded, wrapped));
        }
        ctx.count(&format!("keep:{keep}"));
        if wrapped { ctx.count("history:wrapped") }
        ctx.count(&format!("retained-max:{}", max_retained.min(12)));
    }

    /// The serials a client must get a change set for: those among the last
    /// `max(history-size, 1)` serials (current one included) that were issued.
    fn required(&self, mem: &Memory, keep: u64, cur: u32, c: u32) -> bool {
        let bound = keep.max(1).min(1 << 31);
        let behind = cur.wrapping_sub(c) as u64;
        behind < bound && mem.issued.contains_key(&c)
    }

    /// The serial of the version the oldest retained change set starts from.
    fn retained_base(&self, mem: &Memory, keep: u64) -> Option<u32> {
        let bound = keep.max(1).min(1 << 40) as usize;
        let n = mem.chain.len().min(bound);
        if n == 0 { None } else { Some(mem.chain[mem.chain.len() - n].wrapping_sub(1)) }
    }

    fn oracle_refused(
        &self, ctx: &mut Ctx, input: &Value, mem: &Memory, keep: u64, cur: u32, c: u32, via: &str
    ) {
        if c == cur {
            ctx.oracle_fail(&format!("{via}-current-serial-refused"),
                "a client at the current serial was refused instead of getting an empty change set",
                input, json!({"serial": c, "current": cur}));
        }
        else if self.required(mem, keep, cur, c) {
            if self.retained_base(mem, keep) == Some(c) {
                ctx.oracle_fail(&format!("{via}-retained-base-version-refused"),
                    "a client at one of the last history-size serials — the version the oldest retained \
                     change set starts from — was refused although every change set needed is retained",
                    input, json!({"serial": c, "current": cur, "chain": mem.chain}));
            }
            else {
                ctx.oracle_fail(&format!("{via}-window-serial-refused"),
                    "a client at one of the last history-size serials was refused",
                    input, json!({"serial": c, "current": cur, "chain": mem.chain}));
            }
        }
        else if mem.issued.contains_key(&c) && via == "rtr" {
            ctx.count("obs:issued-serial-outside-window-refused");
        }
    }

    fn oracle_answered(
        &self, ctx: &mut Ctx, input: &Value, mem: &Memory, cur: u32, c: u32, actions: &Actions, via: &str
    ) {
        let base = match mem.issued.get(&c) {
            Some(base) => base,
            None => {
                ctx.oracle_fail(&format!("{via}-never-issued-serial-answered-{}", serial_class(mem, cur, c)),
                    "a serial this session never issued was answered with a change set instead of refused",
                    input, json!({"serial": c, "current": cur, "answer": show_actions(actions)}));
                return
            }
        };
        if c == cur && !actions.is_empty() {
            ctx.oracle_fail(&format!("{via}-current-serial-nonempty"),
                "a client at the current serial got a non-empty change set", input,
                json!({"serial": c, "answer": show_actions(actions)}));
        }
        match apply_actions(base, actions) {
            Ok(res) => if Some(&res) != mem.cur.as_ref() {
                ctx.oracle_fail(&format!("{via}-delta-not-exact"),
                    "the change set applied to the data held at the client serial is not the current data",
                    input, json!({"serial": c, "current": cur, "answer": show_actions(actions)}));
            }
            Err(reason) => ctx.oracle_fail(&format!("{via}-delta-impossible-action"), &reason, input,
                json!({"serial": c, "current": cur, "answer": show_actions(actions)})),
        }
    }
}

fn run(ctx: &mut Ctx, c13: bool) {
    let uni = Universe::new();
    let id = if c13 { "C13" } else { "C14" };
    let inputs: Vec<Value> = match ctx.replay_inputs() {
        Some(inputs) => inputs,
        None => {
            let mut res = ctx.corpus(id);
            let n = if c13 { ctx.budget(240, 6000) } else { ctx.budget(400, 12000) };
            for i in 0..n {
                res.push(gen_history(ctx, &uni, i, c13));
            }
            res
        }
    };
    let runner = Runner { uni: &uni, json: JsonItems::new(&uni), c13 };
    for input in inputs {
        runner.run(ctx, &input);
    }
}

pub fn run_c13(ctx: &mut Ctx) {
    ctx.rule = "history scripts: history-size in {0,1,2,3,5,10,65535,100000} through the real CLI/file \
        option parsers, 1..20 updates (small mutation / unchanged / return to an earlier set; via SLURM \
        assertions or the snapshot hook incl. ASPAs), optional restart of the numbering at a boundary \
        serial (wrap-around), and after updates ~25 client serials around every branch of delta_since \
        (distances 0,1,2,n-1,n,n+1,k-1,k,k+1 behind; 1,2,2^31-1,2^31,2^31+1 ahead; oldest retained xor \
        2^31) through PayloadSource::diff and GET /json-delta, plus foreign sessions; non-trivial = at \
        least one change and one answered query; distinct by (keep, #changes, max retained, longest \
        merged span, seeded, wrapped)".into();
    run(ctx, true)
}

pub fn run_c14(ctx: &mut Ctx) {
    ctx.rule = "history scripts as in C13 without queries: after every update the returned flag, the \
        serial and the retained delta serials (hook) are compared with the model and with the oracle \
        (step 0/1 as the installed data changed, first serial 0, retained <= max(history-size,1)); \
        non-trivial = at least one change; distinct by (keep, #changes, max retained, seeded, wrapped)".into();
    run(ctx, false)
}
