//! Group "history": C13, C14 (payload history), C34 (scheduling).
mod items;
mod hist;
mod sched;

fn run(name: &str, ctx: &mut rvcore::Ctx) -> bool {
    match name {
        "c13" => hist::run_c13(ctx),
        "c14" => hist::run_c14(ctx),
        "c34" => sched::run_c34(ctx),
        _ => return false
    }
    true
}

fn main() { rvcore::main_with(run, rvcore::no_special) }
