//! C34: `mark_update_done` / `refresh_wait` under a scripted clock, data-set
//! expiry and refresh / min-refresh configuration, against the Lean model
//! and the property's bounds.

use chrono::{DateTime, Utc};
use rpki::repository::x509::Time;
use routinator::metrics::Metrics;
use routinator::payload::{SharedHistory, ValidationReport};
use routinator::slurm::LocalExceptions;
use serde_json::{json, Value};
use rvcore::payload_gen::{AbsSet, Universe};
use rvcore::Ctx;
use crate::items::{make_config, snapshot};

const NS: u128 = 1_000_000_000;

fn opt_u64(v: &Value) -> Option<u64> { v.as_u64() }

fn gen_cases(ctx: &mut Ctx) -> Vec<Value> {
    let mut res = Vec::new();
    let refreshes: [u64; 8] = [0, 1, 2, 10, 600, 3600, u32::MAX as u64, 1 << 40];
    let nanos: [u64; 4] = [0, 1, 500_000_000, 999_999_999];
    let dts: [(u64, u64); 6] = [(0, 0), (0, 1), (0, 500_000_000), (1, 0), (5, 250_000_000), (700, 0)];
    let mut idx = 0usize;
    for refresh in refreshes {
        let mut mins: Vec<Option<u64>> = vec![None, Some(0), Some(1), Some(refresh), Some(refresh + 1),
            Some(refresh / 2), Some(refresh.saturating_mul(3)), Some(1 << 41)];
        if refresh > 0 { mins.push(Some(refresh - 1)) }
        mins.dedup();
        for min in mins {
            let m = min.unwrap_or(refresh);
            // expiry offsets (seconds, may be negative) relative to now0
            let mut offs: Vec<Option<i128>> = vec![None, Some(-10), Some(0), Some(1)];
            for base in [m as i128, refresh as i128] {
                for d in [-1i128, 0, 1] { offs.push(Some(base + d)) }
            }
            offs.push(Some((refresh as i128) * 2 + 7));
            offs.dedup();
            for off in offs {
                idx += 1;
                let now0_s: u64 = 1_700_000_000 + (idx as u64 % 7) * 1000;
                let now0_n = nanos[idx % 4];
                let (dt_s, dt_n) = dts[(idx / 4) % dts.len()];
                let exp_nanos = if idx % 5 == 0 { nanos[(idx / 5) % 4] } else { 0 };
                let expiry = off.and_then(|o| {
                    let secs = now0_s as i128 + o;
                    if secs < 0 || secs > 1 << 50 { None } else { Some(json!([secs as u64, exp_nanos])) }
                });
                res.push(json!({
                    "refresh": refresh, "min_refresh": min, "cfg": if idx % 2 == 0 { "cli" } else { "file" },
                    "now0": [now0_s, now0_n], "dt": [dt_s, dt_n], "expiry": expiry,
                }));
            }
        }
    }
    // random fill
    let extra = ctx.budget(600, 20000);
    for i in 0..extra {
        let rng = &mut ctx.rng;
        let refresh = match rng.below(4) { 0 => rng.below(5), 1 => rng.below(100), _ => rng.below(100_000) };
        let min = match rng.below(4) {
            0 => None,
            1 => Some(refresh.saturating_sub(rng.below(3)) + rng.below(3)),
            _ => Some(rng.below(refresh * 2 + 5)),
        };
        let now0_s = 1_000_000 + rng.below(4_000_000_000);
        let now0_n = if rng.chance(1, 2) { 0 } else { rng.below(1_000_000_000) };
        let span = refresh.max(min.unwrap_or(0)) + 3;
        let expiry = if rng.chance(1, 5) { None } else {
            let off = rng.below(span * 2) as i128 - (span as i128) / 2;
            let secs = (now0_s as i128 + off).max(0) as u64;
            Some(json!([secs, if rng.chance(3, 4) { 0 } else { rng.below(1_000_000_000) }]))
        };
        let dt = match rng.below(4) { 0 => (0, 0), 1 => (0, rng.below(1_000_000_000)), _ => (rng.below(span + 2), rng.below(1_000_000_000)) };
        // one case in eight: the realtime clock steps back between the two calls
        let back = if rng.chance(1, 8) { Some(json!([rng.below(span + 2), rng.below(1_000_000_000)])) } else { None };
        res.push(json!({
            "refresh": refresh, "min_refresh": min, "cfg": if i % 2 == 0 { "cli" } else { "file" },
            "now0": [now0_s, now0_n], "dt": [dt.0, dt.1], "expiry": expiry, "back": back,
        }));
    }
    // sequences of regular runs on one history (the server loop's successful arm)
    let seqs = ctx.budget(150, 4000);
    for i in 0..seqs {
        let rng = &mut ctx.rng;
        let refresh = match rng.below(4) { 0 => rng.below(5), 1 => rng.below(100), _ => rng.below(100_000) };
        let min = match rng.below(4) {
            0 => None,
            1 => Some(refresh.saturating_sub(rng.below(3)) + rng.below(3)),
            _ => Some(rng.below(refresh * 2 + 5)),
        };
        let span = refresh.max(min.unwrap_or(0)) + 3;
        let t0_s = 1_000_000 + rng.below(4_000_000_000);
        let t0_n = if rng.chance(1, 2) { 0 } else { rng.below(1_000_000_000) };
        let len = 2 + rng.below(5);
        let mut runs = Vec::new();
        for _ in 0..len {
            let dur = match rng.below(3) { 0 => 0, 1 => rng.below(2_000_000_000), _ => rng.below(span + 2) * 1_000_000_000 + rng.below(1_000_000_000) };
            let lag = match rng.below(3) { 0 => 0, 1 => rng.below(1_000_000), _ => rng.below(3_000_000_000) };
            // expiry offset in ns relative to the end of the run (may be in the past)
            let off: Option<i64> = if rng.chance(1, 4) { None } else {
                let secs = rng.below(span * 2) as i64 - (span as i64) / 2;
                Some(secs * 1_000_000_000 + if rng.chance(3, 4) { 0 } else { rng.below(1_000_000_000) as i64 })
            };
            runs.push(json!([dur, lag, off]));
        }
        res.push(json!({
            "refresh": refresh, "min_refresh": min, "cfg": if i % 2 == 0 { "cli" } else { "file" },
            "t0": [t0_s, t0_n], "seq": runs,
        }));
    }
    res
}

/// A sequence of successful regular runs on one history: each next run starts when the
/// wait obtained from `refresh_wait` has elapsed (`operation.rs`: `deadline = now + timeout`).
fn run_seq(ctx: &mut Ctx, uni: &Universe, input: &Value, config: &routinator::config::Config,
           refresh: u64, min: Option<u64>) {
    let set_time = |t: u128| rvcore::clock::set((t / NS) as i64, (t % NS) as i64);
    let t0 = ns(&input["t0"]);
    set_time(t0.saturating_sub(30 * NS));
    let history = SharedHistory::from_config(config);
    history.mark_update_start();
    history.update(ValidationReport::new(config), &LocalExceptions::empty(), Metrics::new());
    history.mark_update_done();
    let show = |x: Option<u128>| x.map(|x| x.to_string()).unwrap_or_else(|| "-".into());
    let r = refresh as u128 * NS;
    let lower = min.map(|m| m as u128 * NS).unwrap_or(r);
    let upper = r.max(lower);
    let mut op = format!("c34 seq {} {} {}", t0, r, show(min.map(|m| m as u128 * NS)));
    let mut waits = Vec::new();
    let mut starts = vec![t0];
    let mut start = t0;
    for run in input["seq"].as_array().cloned().unwrap_or_default() {
        let dur = run[0].as_u64().unwrap_or(0) as u128;
        let lag = run[1].as_u64().unwrap_or(0) as u128;
        let fin = start + dur;
        let expiry = run[2].as_i64().map(|off| (fin as i128 + off as i128).max(0) as u128);
        set_time(start);
        history.mark_update_start();
        let time = expiry.map(|e| {
            Time::new(DateTime::<Utc>::from_timestamp((e / NS) as i64, (e % NS) as u32).expect("timestamp"))
        });
        SharedHistory::verif_set_next_snapshot(Some(snapshot(uni, &AbsSet::default(), time)));
        history.update(ValidationReport::new(config), &LocalExceptions::empty(), Metrics::new());
        SharedHistory::verif_set_next_snapshot(None);
        set_time(fin);
        history.mark_update_done();
        set_time(fin + lag);
        let wait = history.read().refresh_wait().as_nanos();
        op.push_str(&format!(" {} {} {}", dur, lag, show(expiry)));
        let observed = json!({"run": waits.len(), "wait_ns": wait.to_string()});
        if wait < lower {
            ctx.oracle_fail("seq-wait-below-min-refresh",
                "a wait in a run sequence is shorter than min-refresh (or refresh when unset)", input, observed.clone());
        }
        if wait > upper {
            ctx.oracle_fail("seq-wait-above-max",
                "a wait in a run sequence is longer than max(refresh, min-refresh)", input, observed.clone());
        }
        if let (Some(_), Some(e)) = (min, expiry) {
            if e < fin + r && wait != e.saturating_sub(fin + lag).max(lower) {
                ctx.oracle_fail("seq-early-expiry-not-honoured",
                    "min-refresh set and the run's data set expires before its end + refresh, but the next \
                     run is not at the expiry (bounded below by min-refresh)", input, observed.clone());
            }
        }
        waits.push(wait);
        start = fin + lag + wait;
        starts.push(start);
    }
    let join = |v: &[u128]| v.iter().map(|x| x.to_string()).collect::<Vec<_>>().join(" ");
    let imp = format!("{} | {}", join(&waits), join(&starts));
    ctx.case(input, &op, &imp);
    ctx.nontrivial(format!("seq/{}/{}", waits.len(), min.is_some()));
    ctx.count("seq:runs");
}

fn ns(pair: &Value) -> u128 {
    pair[0].as_u64().unwrap_or(0) as u128 * NS + pair[1].as_u64().unwrap_or(0) as u128
}

pub fn run_c34(ctx: &mut Ctx) {
    ctx.rule = "refresh in {0,1,2,10,600,3600,2^32-1,2^40} x min-refresh in {unset,0,1,refresh-1,refresh,\
        refresh+1,refresh/2,3*refresh,2^41} through the real CLI/file option parsers x data-set expiry \
        {none, past, now, min-refresh-1/0/+1, refresh-1/0/+1, far} x clock sub-second parts x delay \
        between mark_update_done and refresh_wait, plus random fill; non-trivial = expiry present; \
        distinct by (refresh vs min-refresh order, expiry position class, delayed)".into();
    let uni = Universe::new();
    let inputs: Vec<Value> = match ctx.replay_inputs() {
        Some(inputs) => inputs,
        None => {
            let mut res = ctx.corpus("C34");
            res.extend(gen_cases(ctx));
            res
        }
    };
    for input in inputs {
        let refresh = input["refresh"].as_u64().unwrap_or(0);
        let min = opt_u64(&input["min_refresh"]);
        let via_cli = input["cfg"].as_str() == Some("cli");
        let now0 = ns(&input["now0"]);
        let dt = ns(&input["dt"]);
        let back = if input["back"].is_array() { ns(&input["back"]) } else { 0 };
        let now1 = if back > 0 { now0.saturating_sub(back) } else { now0 + dt };
        let expiry = if input["expiry"].is_null() { None } else { Some(ns(&input["expiry"])) };

        let mut opts = vec![("refresh", refresh.to_string())];
        if let Some(m) = min { opts.push(("min-refresh", m.to_string())) }
        let config = if via_cli { make_config("c34", &[], &opts) } else { make_config("c34", &opts, &[]) };
        let config = match config {
            Ok(config) => config,
            Err(err) => {
                ctx.count("config:rejected");
                ctx.case_oracle_only(&input, &format!("config rejected: {err}"));
                continue
            }
        };
        if config.refresh.as_secs() != refresh || config.min_refresh.map(|d| d.as_secs()) != min {
            ctx.oracle_fail("config-refresh", "parsed refresh/min-refresh differ from the option values",
                &input, json!([config.refresh.as_secs(), config.min_refresh.map(|d| d.as_secs())]));
        }

        if input["seq"].is_array() {
            run_seq(ctx, &uni, &input, &config, refresh, min);
            continue
        }

        // A regular (non-initial) run: the history already has data.
        let set_time = |t: u128| rvcore::clock::set((t / NS) as i64, (t % NS) as i64);
        set_time(now0.saturating_sub(30 * NS));
        let history = SharedHistory::from_config(&config);
        history.mark_update_start();
        history.update(ValidationReport::new(&config), &LocalExceptions::empty(), Metrics::new());
        history.mark_update_done();
        set_time(now0.saturating_sub(5 * NS));
        history.mark_update_start();
        let time = expiry.map(|e| {
            Time::new(DateTime::<Utc>::from_timestamp((e / NS) as i64, (e % NS) as u32).expect("timestamp"))
        });
        SharedHistory::verif_set_next_snapshot(Some(snapshot(&uni, &AbsSet::default(), time)));
        history.update(ValidationReport::new(&config), &LocalExceptions::empty(), Metrics::new());
        SharedHistory::verif_set_next_snapshot(None);
        set_time(now0);
        history.mark_update_done();
        let wait0 = history.read().refresh_wait().as_nanos();
        set_time(now1);
        let wait1 = history.read().refresh_wait().as_nanos();

        let show = |x: Option<u128>| x.map(|x| x.to_string()).unwrap_or_else(|| "-".into());
        let op = format!("c34 {} {} {} {} {}", now0, now1, refresh as u128 * NS,
            show(min.map(|m| m as u128 * NS)), show(expiry));
        let imp = format!("{wait0} {wait1}");
        ctx.case(&input, &op, &imp);

        // Oracle: the property's bounds, on both observations.
        let r = refresh as u128 * NS;
        let lower = min.map(|m| m as u128 * NS).unwrap_or(r);
        let upper = r.max(lower);
        for (which, now, wait) in [("at-done", now0, wait0), ("later", now1, wait1)] {
            let observed = json!({"when": which, "wait_ns": wait.to_string()});
            if wait < lower {
                ctx.oracle_fail("wait-below-min-refresh",
                    "wait shorter than min-refresh (or refresh when unset)", &input, observed.clone());
            }
            // a backward clock step is outside the property; the excess is bounded by the step
            if wait > upper + now0.saturating_sub(now) {
                ctx.oracle_fail("wait-above-max", "wait longer than max(refresh, min-refresh)",
                    &input, observed.clone());
            }
            if let (Some(_), Some(e)) = (min, expiry) {
                if e < now0 + r {
                    let expect = e.saturating_sub(now).max(lower);
                    if wait != expect {
                        ctx.oracle_fail("early-expiry-not-honoured",
                            "min-refresh set and the data set expires before now+refresh, but the next run \
                             is not at the expiry (bounded below by min-refresh)", &input, observed.clone());
                    }
                }
            }
        }
        if let Some(e) = expiry {
            let pos = if e < now0 { "past" } else if e < now0 + lower { "before-min" }
                else if e == now0 + lower { "at-min" } else if e < now0 + r { "before-refresh" }
                else if e == now0 + r { "at-refresh" } else { "after-refresh" };
            let ord = match min { None => "unset", Some(m) if m < refresh => "min<refresh",
                Some(m) if m == refresh => "min=refresh", _ => "min>refresh" };
            ctx.nontrivial(format!("{ord}/{pos}/{}", dt > 0));
            ctx.count(&format!("expiry:{pos}"));
        } else { ctx.count("expiry:none") }
        if back > 0 { ctx.count("clock-back") }
    }
}
