//! C33: a failed run never changes the served data.
//!
//! In-process: a real `Engine` (zero TALs, scratch cache directory), a real
//! `SharedHistory` and `NotifySender`, and the server's real per-run step
//! `Server::process_once` (through the guarded wrapper
//! `Server::verif_process_once`). Histories interleave successful runs,
//! forced retryable / fatal failures (hook at the top of
//! `ValidationReport::process`) and *real* fatal failures (the RRDP
//! collector's working directory is removed, so `run.cleanup()` fails after
//! validation). The served data set varies through local exceptions (SLURM
//! assertions): with zero TALs the served set is exactly the assertions.

use std::collections::BTreeSet;
use std::path::PathBuf;
use std::sync::Arc;
use futures::FutureExt;
use rpki::rtr::server::{NotifySender, PayloadSet, PayloadSource};
use rpki::rtr::{PayloadRef, Serial};
use routinator::config::Config;
use routinator::engine::Engine;
use routinator::operation::Server;
use routinator::payload::SharedHistory;
use routinator::slurm::LocalExceptions;
use routinator::verif::{set_run_outcomes, RunOutcome};
use serde_json::{json, Value};
use rvcore::Ctx;

const BASE_ASN: u32 = 64496;
const UNIVERSE: u64 = 5;

fn slurm(ids: &[u64]) -> LocalExceptions {
    let assertions: Vec<Value> = ids.iter().map(|id| json!({
        "asn": BASE_ASN as u64 + id,
        "prefix": format!("10.0.{}.0/24", id),
        "maxPrefixLength": 24,
        "comment": "verif"
    })).collect();
    let doc = json!({
        "slurmVersion": 1,
        "validationOutputFilters": {"prefixFilters": [], "bgpsecFilters": []},
        "locallyAddedAssertions": {
            "prefixAssertions": assertions, "bgpsecAssertions": []
        }
    });
    LocalExceptions::from_json(&doc.to_string(), true).expect("slurm json")
}

/// Everything a client (RTR, HTTP) can get at, canonical.
#[derive(Clone, Debug, Eq, PartialEq)]
struct View {
    ready: bool,
    rtr_notify: (u16, u32),
    rtr_full: ((u16, u32), Vec<String>),
    session: u64,
    serial: u32,
    created: Option<(i64, u32)>,
    done: Option<(i64, u32)>,
    current: Option<Vec<u64>>,
    /// Address of the current snapshot / metrics objects (identity).
    current_ptr: usize,
    metrics_ptr: usize,
    /// `delta_since(s)` for every s in 0..=serial+1: None or (target serial,
    /// announce_len, withdraw_len).
    deltas: Vec<Option<(u32, usize, usize)>>,
}

fn payload_str(p: PayloadRef) -> String {
    match p {
        PayloadRef::Origin(o) => format!("O{}-{}", o.asn, o.prefix),
        PayloadRef::RouterKey(k) => format!("R{}", k.asn),
        PayloadRef::Aspa(a) => format!("A{}", a.customer),
    }
}

fn view(history: &SharedHistory) -> View {
    let ready = history.ready();
    let state = PayloadSource::notify(history);
    let (fstate, mut set) = history.full();
    let mut items = Vec::new();
    while let Some(item) = set.next() {
        items.push(payload_str(item));
    }
    let read = history.read();
    let (session, serial) = read.session_and_serial();
    let serial = u32::from(serial);
    let current = read.current();
    let metrics = read.metrics();
    let mut deltas = Vec::new();
    for s in 0..=(serial.min(40) + 1) {
        deltas.push(read.delta_since(Serial::from(s)).map(|d| {
            (u32::from(d.serial()), d.announce_len(), d.withdraw_len())
        }));
    }
    View {
        ready,
        rtr_notify: (state.session(), u32::from(state.serial())),
        rtr_full: ((fstate.session(), u32::from(fstate.serial())), items),
        session, serial,
        created: read.created().map(|t| {
            (t.timestamp(), t.timestamp_subsec_nanos())
        }),
        done: read.last_update_done().map(|t| {
            (t.timestamp(), t.timestamp_subsec_nanos())
        }),
        current: current.as_ref().map(|snapshot| {
            let mut ids: Vec<u64> = snapshot.origins().map(|(o, _)| {
                (o.asn.into_u32() - BASE_ASN) as u64
            }).collect();
            ids.sort();
            ids
        }),
        current_ptr: current.as_ref().map(|a| Arc::as_ptr(a) as usize).unwrap_or(0),
        metrics_ptr: metrics.as_ref().map(|a| Arc::as_ptr(a) as usize).unwrap_or(0),
        deltas,
    }
}

fn view_json(v: &View) -> Value {
    json!({
        "ready": v.ready, "rtr_notify": [v.rtr_notify.0, v.rtr_notify.1],
        "rtr_full_state": [v.rtr_full.0.0, v.rtr_full.0.1],
        "rtr_full_items": v.rtr_full.1,
        "session": v.session, "serial": v.serial,
        "created": v.created.map(|(s, n)| format!("{s}.{n}")),
        "last_update_done": v.done.map(|(s, n)| format!("{s}.{n}")),
        "current": v.current,
        "current_ptr_changed_marker": v.current_ptr,
        "metrics_ptr": v.metrics_ptr,
        "deltas": v.deltas.iter().map(|d| match d {
            None => Value::Null,
            Some((s, a, w)) => json!([s, a, w])
        }).collect::<Vec<_>>(),
    })
}

fn show_time(t: Option<(i64, u32)>) -> String {
    match t {
        None => "none".into(),
        Some((s, n)) => format!("{s}.{n}")
    }
}

struct Env {
    _dir: tempfile::TempDir,
    cache: PathBuf,
    config: Config,
    engine: Engine,
}

/// A syntactically valid TAL (RIPE's public key) whose only trust anchor
/// URI is unreachable; with rsync disabled nothing is ever fetched, so the
/// store never holds a trust anchor certificate for it.
const TAL: &str = "rsync://unreachable.invalid/ta/verif-ta.cer\n\n\
MIIBIjANBgkqhkiG9w0BAQEFAAOCAQ8AMIIBCgKCAQEA0URYSGqUz2myBsOzeW1j\n\
Q6NsxNvlLMyhWknvnl8NiBCs/T/S2XuNKQNZ+wBZxIgPPV2pFBFeQAvoH/WK83Hw\n\
A26V2siwm/MY2nKZ+Olw+wlpzlZ1p3Ipj2eNcKrmit8BwBC8xImzuCGaV0jkRB0G\n\
Z0hoH6Ml03umLprRsn6v0xOP0+l6Qc1ZHMFVFb385IQ7FQQTcVIxrdeMsoyJq9eM\n\
kE6DoclHhF/NlSllXubASQ9KUWqJ0+Ot3QCXr4LXECMfkpkVR2TZT+v5v658bHVs\n\
6ZxRD1b6Uk1uQKAyHUbn/tXvP8lrjAibGzVsXDT2L0x4Edx+QdixPgOji3gBMyL2\n\
VwIDAQAB\n";

/// `with_tal`: one TAL is configured (see [`TAL`]). A run in initial
/// (store-only) mode then fails for real with a retryable error ("Initial
/// quick validation failed: no trust anchor for TAL"), a regular run
/// succeeds with no RPKI data ("No valid trust anchor for TAL").
fn make_env(with_tal: bool) -> Env {
    let dir = tempfile::tempdir().expect("tempdir");
    let cache = dir.path().join("cache");
    std::fs::create_dir_all(&cache).expect("cache dir");
    let mut config = Config::default_with_paths(
        dir.path().join("routinator.conf"), cache.clone()
    );
    config.no_rir_tals = true;
    config.disable_rsync = true;
    if with_tal {
        let tals = dir.path().join("tals");
        std::fs::create_dir_all(&tals).expect("tal dir");
        std::fs::write(tals.join("verif.tal"), TAL).expect("tal file");
        config.extra_tals_dir = Some(tals);
    }
    config.validation_threads = 2;
    let mut engine = Engine::new(&config, true).expect("engine");
    engine.ignite().expect("ignite");
    Env { _dir: dir, cache, config, engine }
}

fn letter(o: &str) -> &'static str {
    match o {
        "ok" => "o", "retry" => "r", "fatal" => "f", "initial-real" => "I",
        _ => "F"
    }
}

fn gen_steps(rng: &mut rvcore::Rng, outcomes: &[&str], t0: u64) -> Vec<Value> {
    let mut now = t0;
    let mut prev: Vec<u64> = Vec::new();
    let mut steps = Vec::new();
    for oc in outcomes {
        // Time: same second, next second or later; nanoseconds zero or not.
        now += *rng.pick(&[0u64, 0, 1, 1, 2, 7]);
        let nanos = *rng.pick(&[0u64, 0, 5, 999_999_999]);
        // Data the run would produce: unchanged, small change, or fresh.
        let data: Vec<u64> = match rng.below(4) {
            0 => prev.clone(),
            1 => {
                let mut set: BTreeSet<u64> = prev.iter().cloned().collect();
                let id = rng.below(UNIVERSE);
                if !set.remove(&id) { set.insert(id); }
                set.into_iter().collect()
            }
            _ => (0..UNIVERSE).filter(|_| rng.chance(1, 2)).collect(),
        };
        if *oc == "ok" { prev = data.clone(); }
        steps.push(json!({
            "outcome": oc, "secs": now, "nanos": nanos, "data": data
        }));
    }
    steps
}

fn sequences(max: usize, alphabet: &[&'static str]) -> Vec<Vec<&'static str>> {
    let mut res = Vec::new();
    let mut level: Vec<Vec<&'static str>> = vec![vec![]];
    for _ in 0..max {
        let mut next = Vec::new();
        for seq in &level {
            for item in alphabet {
                let mut seq = seq.clone();
                seq.push(*item);
                next.push(seq);
            }
        }
        res.extend(next.iter().cloned());
        level = next;
    }
    res
}

fn generate(ctx: &mut Ctx) -> Vec<Value> {
    let mut res = ctx.corpus("C33");
    let max = if ctx.quick() && !ctx.search { 5 } else { 6 };
    let variants = ctx.budget(2, 6);
    let t0 = 1_700_000_000u64;
    for seq in sequences(max, &["ok", "retry", "fatal"]) {
        for v in 0..variants {
            let mut rng = ctx.rng.fork();
            let keep = [10u64, 1, 2, 3, 10, 1][v % 6];
            let steps = gen_steps(&mut rng, &seq, t0);
            res.push(json!({"keep": keep, "t0": [t0, 0], "steps": steps}));
        }
    }
    // Histories with real fatal failures (never as the very first, initial,
    // run: that one does not use the collector).
    let extra = ctx.budget(150, 2000);
    for i in 0..extra {
        let mut rng = ctx.rng.fork();
        let len = rng.range(2, 8) as usize;
        let mut seq: Vec<&str> = Vec::new();
        for k in 0..len {
            seq.push(match rng.below(8) {
                0 | 1 if k > 0 => "real-fatal",
                2 => "retry",
                3 => "fatal",
                _ => "ok",
            });
        }
        let keep = [10u64, 1, 2, 3][i % 4];
        let steps = gen_steps(&mut rng, &seq, t0);
        res.push(json!({"keep": keep, "t0": [t0, 0], "steps": steps}));
    }
    // Histories in an environment with one configured TAL whose trust
    // anchor is not in the store: real initial-mode (store-only) runs fail
    // for real (retryable), regular runs succeed and install the SLURM
    // data.
    let tal_max = if ctx.quick() && !ctx.search { 4 } else { 5 };
    for seq in sequences(tal_max, &["ok", "initial-real", "retry"]) {
        if !seq.contains(&"initial-real") { continue }
        let mut rng = ctx.rng.fork();
        let keep = *rng.pick(&[10u64, 1, 2]);
        let steps = gen_steps(&mut rng, &seq, t0);
        res.push(json!({"tal": true, "keep": keep, "t0": [t0, 0], "steps": steps}));
    }
    res
}

pub fn run_c33(ctx: &mut Ctx) {
    ctx.rule = "every history over {ok,retry,fatal} of length <= 5 (quick) / 6 (thorough), each \
        with several seeded choices of run times (same second / later, zero / non-zero \
        nanoseconds), data sets (unchanged / one item flipped / fresh subset of 5 origins, via \
        SLURM assertions) and history-size in {1,2,3,10}; plus random histories with real \
        fatal failures (RRDP directory removed => cleanup fails after validation); plus every \
        history over {ok, initial-real, retry} of length <= 4 / 5 containing a real initial-mode \
        run in an environment with one TAL whose trust anchor is not in the store (fails \
        retryably for real). \
        non-trivial = a failed run after at least one successful run; distinct by (outcome \
        string, data changed before the failure, keep)".into();
    let inputs: Vec<Value> = match ctx.replay_inputs() {
        Some(inputs) => inputs,
        None => generate(ctx),
    };
    log::set_max_level(log::LevelFilter::Info);
    let env_plain = make_env(false);
    let env_tal = make_env(true);

    for input in inputs {
        let Some(steps) = input["steps"].as_array() else {
            ctx.case_oracle_only(&input, "bad-input");
            continue
        };
        let keep = input["keep"].as_u64().unwrap_or(10);
        let t0s = input["t0"][0].as_u64().unwrap_or(1_700_000_000);
        let t0n = input["t0"][1].as_u64().unwrap_or(0);
        let with_tal = input["tal"].as_bool().unwrap_or(false);
        let env = if with_tal { &env_tal } else { &env_plain };
        let mut config = env.config.clone();
        config.history_size = keep as usize;
        rvcore::clock::set(t0s as i64, t0n as i64);
        let history = SharedHistory::from_config(&config);
        let mut notify = NotifySender::new();
        let mut long_lived = notify.subscribe();
        let mut notified_total = 0u64;
        let mut op_steps = Vec::new();
        let mut imp_steps = Vec::new();
        let mut sig = String::new();
        let mut had_ok = false;
        let mut nontrivial = false;

        for (idx, step) in steps.iter().enumerate() {
            let oc = step["outcome"].as_str().unwrap_or("ok");
            let secs = step["secs"].as_u64().unwrap_or(t0s);
            let nanos = step["nanos"].as_u64().unwrap_or(0);
            let data: Vec<u64> = step["data"].as_array().map(|a| {
                a.iter().filter_map(|v| v.as_u64()).collect()
            }).unwrap_or_default();
            let exceptions = slurm(&data);
            rvcore::clock::set(secs as i64, nanos as i64);

            let before = view(&history);
            let mut fresh = notify.subscribe();
            let real = oc == "real-fatal";
            let rrdp = env.cache.join("rrdp");
            set_run_outcomes(vec![match oc {
                "retry" => RunOutcome::Retry,
                "fatal" => RunOutcome::Fatal,
                _ => RunOutcome::Proceed,
            }]);
            if real {
                let _ = std::fs::remove_dir_all(&rrdp);
            }
            // The server passes `initial = true` for its first run only;
            // a real failure needs the collector, i.e. a non-initial run.
            // With a TAL configured, exactly the `initial-real` steps run in
            // initial mode (and fail for real).
            let initial = if with_tal { oc == "initial-real" }
                          else { idx == 0 && !real };
            let res = Server::verif_process_once(
                &config, &env.engine, &history, &mut notify, &exceptions,
                initial
            );
            if real {
                let _ = std::fs::create_dir_all(&rrdp);
            }
            let after = view(&history);
            let got_fresh = fresh.recv().now_or_never().is_some();
            let got_long = long_lived.recv().now_or_never().is_some();
            if got_fresh { notified_total += 1; }

            let failed = oc != "ok";
            sig.push_str(letter(oc));
            if failed && had_ok { nontrivial = true; }
            if !failed { had_ok = true; }

            let returned_ok = res.is_ok();
            if !failed && !returned_ok {
                // A run that was told to proceed failed: the harness's
                // environment is broken, not the property.
                ctx.count("harness-ok-run-failed");
                op_steps.push("harness-error".into());
                imp_steps.push(format!("harness-error step {idx} failed"));
                break
            }
            if failed && returned_ok {
                // The run did fail (the hook / the removed directory made
                // it fail); the step hides that. Judged by its effects below.
                ctx.count("failed-run-reported-ok");
            }
            if let Err(err) = res {
                if err.is_fatal() != (oc == "fatal" || oc == "real-fatal") {
                    ctx.count("harness-fatality-mismatch");
                }
            }

            // ORACLE: a failed run leaves everything served as it was.
            if failed {
                let mut diffs = Vec::new();
                if before != after {
                    if before.current != after.current
                        || before.current_ptr != after.current_ptr
                        || before.rtr_full.1 != after.rtr_full.1
                        || before.ready != after.ready
                    {
                        diffs.push("data-set");
                    }
                    if before.serial != after.serial
                        || before.rtr_notify != after.rtr_notify
                        || before.rtr_full.0 != after.rtr_full.0
                    {
                        diffs.push("serial");
                    }
                    if before.session != after.session { diffs.push("session"); }
                    if before.created != after.created { diffs.push("created"); }
                    // `last_update_done` (shown by /status and /metrics only)
                    // is compared through the model, not demanded here.
                    if before.deltas != after.deltas { diffs.push("deltas"); }
                    if before.metrics_ptr != after.metrics_ptr { diffs.push("metrics"); }
                }
                if got_fresh || got_long { diffs.push("notification"); }
                if !diffs.is_empty() {
                    ctx.oracle_fail(
                        &format!("failed-run-changed-{}", diffs.join("+")),
                        &format!(
                            "step {idx} ({oc}) failed{} but changed: {}",
                            if returned_ok { " (reported as Ok)" } else { "" },
                            diffs.join(", ")
                        ),
                        &input,
                        json!({
                            "step": idx, "before": view_json(&before),
                            "after": view_json(&after),
                            "notified": got_fresh || got_long,
                        })
                    );
                }
            }
            if got_fresh != got_long {
                ctx.count("receiver-disagreement");
            }

            op_steps.push(format!(
                "{} {} {} {}", letter(oc), secs, nanos,
                if data.is_empty() { "-".to_string() }
                else { data.iter().map(|d| d.to_string()).collect::<Vec<_>>().join(",") }
            ));
            // The retained deltas' target serials, newest first (guarded
            // accessor next to `PayloadHistory`).
            let retained = {
                let list: Vec<String> = history.verif_delta_serials().iter().map(|s| {
                    u32::from(*s).to_string()
                }).collect();
                if list.is_empty() { "-".to_string() } else { list.join(",") }
            };
            imp_steps.push(format!(
                "ok={} cur={} ser={} ses={} cr={} d={} n={} done={}",
                if returned_ok { 1 } else { 0 },
                match after.current.as_ref() {
                    None => "none".to_string(),
                    Some(ids) => format!(
                        "[{}]",
                        ids.iter().map(|d| d.to_string()).collect::<Vec<_>>().join(",")
                    )
                },
                after.serial, after.session, show_time(after.created),
                retained, notified_total, show_time(after.done)
            ));
        }
        let op = format!("c33 {} {} {}|{}", keep, t0s, t0n, op_steps.join(";"));
        ctx.case(&input, &op, &imp_steps.join(";"));
        ctx.count(&format!("len={}", steps.len()));
        if nontrivial {
            ctx.nontrivial(format!("{sig}/{keep}"));
        }
    }
    rvcore::clock::disable();
}
