pub fn run_c33(_ctx: &mut rvcore::Ctx) {}
