//! Group "server": C32 (retries), C33 (failed run changes nothing served).
mod cli;
mod c32;
mod c33;

fn run(name: &str, ctx: &mut rvcore::Ctx) -> bool {
    match name {
        "c32" => c32::run_c32(ctx),
        "c33" => c33::run_c33(ctx),
        _ => return false
    }
    true
}

/// `rv-server routinator <args…>` behaves like the routinator binary.
fn special(name: &str, args: &[String]) -> Option<i32> {
    match name {
        "routinator" => Some(cli::routinator_main(args)),
        _ => None
    }
}

fn main() { rvcore::main_with(run, special) }
