//! The routinator command line, replicated from /repo/src/main.rs so that
//! the harness binary (built with the hook feature) can be run as the real
//! commands in a child process.

use std::env::current_dir;
use std::sync::Arc;
use std::sync::atomic::{AtomicUsize, Ordering};
use clap::Command;
use log::error;
use routinator::{Config, ExitError, Operation};

fn _main(args: &[String]) -> Result<(), ExitError> {
    Operation::prepare()?;
    let cur_dir = match current_dir() {
        Ok(dir) => dir,
        Err(err) => {
            error!(
                "Fatal: cannot get current directory ({err}). Aborting."
            );
            return Err(ExitError::Generic);
        }
    };
    let mut argv = vec!["routinator".to_string()];
    argv.extend(args.iter().cloned());
    let matches = Operation::config_args(Config::config_args(
        Command::new("Routinator")
            .version("verif")
            .about("collects and processes RPKI repository data")
    )).get_matches_from(argv);
    let mut config = Config::from_arg_matches(&matches, &cur_dir)?;
    let operation = Operation::from_arg_matches(
        &matches, &cur_dir, &mut config
    )?;
    operation.run(config)
}

/// Optional real fault for `Engine::sanitize`: `RV_BREAK_SANITIZE=<n>:<dir>`
/// removes `<dir>` (the RRDP collector's working directory) when the n-th
/// validation run starts; every later `sanitize()` then fails fatally for
/// real (`fatal::read_dir` on a missing directory).
fn install_sanitize_breaker() {
    let Ok(spec) = std::env::var("RV_BREAK_SANITIZE") else { return };
    let Some((n, dir)) = spec.split_once(':') else { return };
    let Ok(n) = n.parse::<usize>() else { return };
    let dir = dir.to_string();
    let seen = AtomicUsize::new(0);
    routinator::verif::set_point_handler(Some(Arc::new(move |name: &str| {
        if name == "run-start"
            && seen.fetch_add(1, Ordering::SeqCst) + 1 == n
        {
            let _ = std::fs::remove_dir_all(&dir);
        }
    })));
}

pub fn routinator_main(args: &[String]) -> i32 {
    install_sanitize_breaker();
    match _main(args) {
        Ok(_) => 0,
        Err(ExitError::Generic) => 1,
        Err(ExitError::IncompleteUpdate) => 2,
        Err(ExitError::Invalid) => 3,
    }
}
