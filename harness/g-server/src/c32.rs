//! C32: failed runs are retried at most once.
//!
//! Every case runs a *real* routinator command (`vrps`, `validate`,
//! `update`, `server`) as a child process (`rv-server routinator …`, which
//! replicates /repo/src/main.rs) with zero TALs, a scratch cache directory
//! and a scripted sequence of run outcomes (`VERIF_RUN_OUTCOMES`, consumed
//! by the hook at the top of `ValidationReport::process`). Runs are counted
//! through `VERIF_EVENT_LOG` (`run-start` lines); `VERIF_RUN_LIMIT` is the
//! watchdog (exit status 99 when run limit + 1 starts).

use std::path::Path;
use std::process::{Command, Stdio};
use std::sync::{Arc, Mutex};
use std::sync::atomic::{AtomicUsize, Ordering};
use std::time::{Duration, Instant};
use serde_json::{json, Value};
use rvcore::Ctx;

/// The commands under test: (name in inputs, uses a collector, is server).
const COMMANDS: &[(&str, bool, bool)] = &[
    ("vrps", true, false),
    ("vrps-n", false, false),
    ("validate", true, false),
    ("validate-n", false, false),
    ("update", true, false),
    ("server", true, true),
];

fn command_args(cmd: &str) -> Option<Vec<&'static str>> {
    Some(match cmd {
        "vrps" => vec!["vrps", "-o", "/dev/null"],
        "vrps-n" => vec!["vrps", "-n", "-o", "/dev/null"],
        "validate" => vec!["validate", "-a", "64496", "-p", "192.0.2.0/24"],
        "validate-n" => {
            vec!["validate", "-n", "-a", "64496", "-p", "192.0.2.0/24"]
        }
        "update" => vec!["update"],
        // Foreground server, no listeners, zero refresh: after a successful
        // run the next one starts at once, so the watchdog bounds the run.
        "server" => vec!["server", "--refresh", "0"],
        _ => return None
    })
}

#[derive(Clone, Debug)]
struct Observed {
    /// Number of `run-start` events.
    runs: usize,
    /// Exit status; 99 = watchdog; -1 = killed by signal; -2 = hang.
    exit: i32,
    stderr: String,
}

fn run_child(
    exe: &Path, cmd: &str, outcomes: &[String], break_at: Option<u64>,
    limit: u64,
) -> Result<Observed, String> {
    let scratch = tempfile::tempdir().map_err(|e| e.to_string())?;
    let cache = scratch.path().join("cache");
    let home = scratch.path().join("home");
    std::fs::create_dir_all(&cache).map_err(|e| e.to_string())?;
    std::fs::create_dir_all(&home).map_err(|e| e.to_string())?;
    let log = scratch.path().join("events");
    let args = command_args(cmd).ok_or("unknown command")?;
    let mut child = Command::new(exe);
    child.arg("routinator").arg("--no-rir-tals").arg("--disable-rsync")
        .arg("-r").arg(&cache)
        .args(&args)
        .current_dir(scratch.path())
        .env("HOME", &home)
        .env("VERIF_EVENT_LOG", &log)
        .env("VERIF_RUN_LIMIT", limit.to_string())
        .env("VERIF_RUN_OUTCOMES", outcomes.join(","))
        .env_remove("VERIF_KILL_AT")
        .env_remove("RV_BREAK_SANITIZE")
        .stdin(Stdio::null()).stdout(Stdio::null())
        .stderr(Stdio::piped());
    if let Some(k) = break_at {
        child.env(
            "RV_BREAK_SANITIZE",
            format!("{}:{}", k, cache.join("rrdp").display())
        );
    }
    let mut child = child.spawn().map_err(|e| e.to_string())?;
    let start = Instant::now();
    let status = loop {
        match child.try_wait().map_err(|e| e.to_string())? {
            Some(status) => break Some(status),
            None => {
                if start.elapsed() > Duration::from_secs(60) {
                    let _ = child.kill();
                    let _ = child.wait();
                    break None
                }
                std::thread::sleep(Duration::from_millis(2));
            }
        }
    };
    let mut stderr = String::new();
    if let Some(mut pipe) = child.stderr.take() {
        use std::io::Read;
        let _ = pipe.read_to_string(&mut stderr);
    }
    let runs = std::fs::read_to_string(&log).unwrap_or_default()
        .lines().filter(|l| *l == "run-start").count();
    let exit = match status {
        None => -2,
        Some(status) => status.code().unwrap_or(-1),
    };
    if stderr.chars().count() > 600 {
        let skip = stderr.chars().count() - 600;
        stderr = stderr.chars().skip(skip).collect();
    }
    Ok(Observed { runs, exit, stderr })
}

/// The outcome run number `i` (0-based) really has: the scripted one (last
/// item repeating), except that once the harness has removed the RRDP
/// working directory (at the start of run number `break_at`, 1-based) a
/// run that was told to proceed fails fatally for real in `run.cleanup()`.
///
/// The server's initial run (run 0) does not use the collector and is
/// therefore not affected.
fn effective(
    server: bool, outcomes: &[String], break_at: Option<u64>, i: usize
) -> String {
    let scripted = outcomes.get(i).or(outcomes.last())
        .cloned().unwrap_or_else(|| "ok".into());
    match break_at {
        Some(k) if (i as u64) + 1 >= k && scripted == "ok"
            && !(server && i == 0) => "fatal".into(),
        _ => scripted
    }
}

/// All sequences over {ok, retry, fatal} of length 1..=max.
fn sequences(max: usize) -> Vec<Vec<&'static str>> {
    let mut res = Vec::new();
    let mut level: Vec<Vec<&'static str>> = vec![vec![]];
    for _ in 0..max {
        let mut next = Vec::new();
        for seq in &level {
            for item in ["ok", "retry", "fatal"] {
                let mut seq = seq.clone();
                seq.push(item);
                next.push(seq);
            }
        }
        res.extend(next.iter().cloned());
        level = next;
    }
    res
}

fn generate(ctx: &mut Ctx) -> Vec<Value> {
    let mut res = ctx.corpus("C32");
    let max = if ctx.search { 5 } else if ctx.quick() { 4 } else { 6 };
    let seqs = sequences(max);
    for &(cmd, collector, server) in COMMANDS {
        // The no-update variants share the code path; enumerate them less
        // deeply.
        let cmd_max = if collector { max } else { 3 };
        for seq in seqs.iter().filter(|s| s.len() <= cmd_max) {
            let limit = if server { seq.len() as u64 + 3 } else { 6 };
            res.push(json!({
                "cmd": cmd, "outcomes": seq, "break_at": Value::Null,
                "limit": limit
            }));
        }
        // Real failures: sanitize() failing / a proceeding run failing
        // fatally once the RRDP directory is gone.
        if collector {
            let brk_max = if ctx.quick() { 2 } else { 4 };
            for seq in seqs.iter().filter(|s| s.len() <= brk_max) {
                for k in 1..=(seq.len() as u64 + 1) {
                    let limit = if server { seq.len() as u64 + 3 } else { 6 };
                    res.push(json!({
                        "cmd": cmd, "outcomes": seq, "break_at": k,
                        "limit": limit
                    }));
                }
            }
        }
    }
    // A few longer random scripts for the server (seeded).
    let extra = ctx.budget(40, 400);
    for _ in 0..extra {
        let len = ctx.rng.range(5, 12) as usize;
        let mut seq = Vec::new();
        for _ in 0..len {
            // mostly ok so that the loop gets far
            let item = match ctx.rng.below(10) {
                0 => "fatal",
                1 | 2 | 3 => "retry",
                _ => "ok",
            };
            seq.push(item);
        }
        let break_at = if ctx.rng.chance(1, 4) {
            json!(ctx.rng.range(1, len as u64))
        } else { Value::Null };
        res.push(json!({
            "cmd": "server", "outcomes": seq, "break_at": break_at,
            "limit": len as u64 + 3
        }));
    }
    res
}

struct Parsed {
    cmd: String,
    outcomes: Vec<String>,
    break_at: Option<u64>,
    limit: u64,
}

fn parse(input: &Value) -> Option<Parsed> {
    let cmd = input["cmd"].as_str()?.to_string();
    command_args(&cmd)?;
    let outcomes: Vec<String> = input["outcomes"].as_array()?.iter().map(|v| {
        v.as_str().unwrap_or("ok").to_string()
    }).collect();
    if outcomes.is_empty()
        || outcomes.iter().any(|o| !["ok", "retry", "fatal"].contains(&o.as_str()))
    {
        return None
    }
    let break_at = input["break_at"].as_u64();
    let limit = input["limit"].as_u64()?;
    if limit == 0 || limit > 40 { return None }
    Some(Parsed { cmd, outcomes, break_at, limit })
}

fn letter(o: &str) -> &'static str {
    match o { "ok" => "o", "retry" => "r", _ => "f" }
}

/// The property evaluated on what the real command did.
fn oracle(p: &Parsed, obs: &Observed) -> Option<(String, String)> {
    let server = p.cmd == "server";
    let collector = !p.cmd.ends_with("-n");
    let break_at = if collector { p.break_at } else { None };
    // Outcomes of the runs that were performed. When the watchdog fired,
    // the last `run-start` belongs to the run that was not performed.
    let performed = if obs.exit == 99 { obs.runs.saturating_sub(1) } else { obs.runs };
    let outs: Vec<String> = (0..performed).map(|i| {
        effective(server, &p.outcomes, break_at, i)
    }).collect();
    if obs.exit == -2 {
        return Some(("hang".into(), "command did not end within 60 s".into()))
    }
    if obs.exit < 0 || obs.exit > 3 && obs.exit != 99 {
        return Some((
            "abnormal-exit".into(),
            format!("command ended abnormally (status {})", obs.exit)
        ))
    }
    if !server {
        if obs.exit == 99 {
            return Some((
                format!("{}-endless-retry", p.cmd),
                format!(
                    "{}: more than {} runs started; the command keeps \
                     retrying a persistently failing run", p.cmd, p.limit
                )
            ))
        }
        if obs.runs > 2 {
            return Some((
                format!("{}-more-than-one-retry", p.cmd),
                format!("{} runs performed by a one-shot command", obs.runs)
            ))
        }
        if obs.runs == 0 {
            return Some((
                format!("{}-no-run", p.cmd), "no validation run".into()
            ))
        }
        if !outs.iter().any(|o| o == "ok") && obs.exit == 0 {
            return Some((
                format!("{}-success-without-successful-run", p.cmd),
                "exit status 0 although every run failed".into()
            ))
        }
        // A retry is only allowed after a retryable failure.
        if obs.runs == 2 && outs[0] != "retry" {
            return Some((
                format!("{}-rerun-without-retryable-failure", p.cmd),
                format!("second run after a first run with outcome {}", outs[0])
            ))
        }
        None
    }
    else {
        // Failed runs after the initial run (index 0).
        let failed: Vec<usize> = (1..outs.len()).filter(|&i| {
            outs[i] != "ok"
        }).collect();
        // Every failed non-initial run that was followed by another run
        // was retried.
        let started = obs.runs;
        let retried = failed.iter().filter(|&&i| i + 1 < started).count();
        if retried > 1 {
            return Some((
                "server-more-than-one-retry".into(),
                format!(
                    "{retried} failed runs after the initial run were \
                     followed by another run (outcomes {:?})", outs
                )
            ))
        }
        if let Some(i) = outs.iter().position(|o| o == "fatal") {
            if i + 1 < started {
                return Some((
                    "server-continues-after-fatal".into(),
                    format!("run {} failed fatally but run {} was started", i, i + 1)
                ))
            }
        }
        // Shut down at the latest with the second failed non-initial run /
        // a fatal failure: then the exit status must be an error, not the
        // watchdog's.
        let must_stop = failed.len() >= 2 || outs.iter().any(|o| o == "fatal");
        if must_stop && (obs.exit == 0 || obs.exit == 99) {
            return Some((
                "server-no-shutdown".into(),
                format!("exit status {} after outcomes {:?}", obs.exit, outs)
            ))
        }
        if obs.exit == 0 {
            return Some((
                "server-exit-0".into(),
                "server ended with status 0 without being told to".into()
            ))
        }
        None
    }
}

pub fn run_c32(ctx: &mut Ctx) {
    ctx.rule = "every sequence over {ok,retry,fatal} up to length 4 (quick) / 6 (thorough) as \
        scripted run outcomes (last item repeats) for the real commands vrps, validate, update \
        and server --refresh 0 run as child processes with zero TALs (-n variants up to length 3); \
        plus variants where the RRDP working directory is removed at the start of run k so \
        that sanitize() and proceeding runs fail for real; plus longer random server scripts. \
        non-trivial = at least one failed run; distinct by (command, #runs, exit status, \
        outcomes of the performed runs)".into();
    let inputs: Vec<Value> = match ctx.replay_inputs() {
        Some(inputs) => inputs,
        None => generate(ctx),
    };
    let exe = std::env::current_exe().expect("current exe");

    // Run the child processes on a few threads; record in input order.
    let parsed: Vec<Option<Parsed>> = inputs.iter().map(parse).collect();
    let results: Arc<Mutex<Vec<Option<Result<Observed, String>>>>> =
        Arc::new(Mutex::new(vec![None; inputs.len()]));
    let next = Arc::new(AtomicUsize::new(0));
    let workers = std::thread::available_parallelism()
        .map(|n| n.get()).unwrap_or(2).clamp(1, 12);
    std::thread::scope(|scope| {
        for _ in 0..workers {
            let results = results.clone();
            let next = next.clone();
            let parsed = &parsed;
            let exe = &exe;
            scope.spawn(move || {
                loop {
                    let idx = next.fetch_add(1, Ordering::SeqCst);
                    if idx >= parsed.len() { break }
                    let Some(p) = parsed[idx].as_ref() else { continue };
                    let collector = !p.cmd.ends_with("-n");
                    let res = run_child(
                        exe, &p.cmd, &p.outcomes,
                        if collector { p.break_at } else { None }, p.limit
                    );
                    results.lock().unwrap()[idx] = Some(res);
                }
            });
        }
    });
    let results = Arc::try_unwrap(results).unwrap().into_inner().unwrap();

    for ((input, parsed), result) in inputs.iter().zip(parsed).zip(results) {
        let Some(p) = parsed else {
            ctx.count("bad-input");
            ctx.case_oracle_only(input, "bad-input");
            continue
        };
        let obs = match result {
            Some(Ok(obs)) => obs,
            Some(Err(err)) => {
                ctx.count("harness-error");
                ctx.case(input, "c32 harness-error", &format!("harness-error {err}"));
                continue
            }
            None => continue
        };
        let collector = !p.cmd.ends_with("-n");
        let op = format!(
            "c32 {} {} {} {}",
            p.cmd, p.limit,
            match p.break_at {
                Some(k) if collector => k.to_string(),
                _ => "-".into()
            },
            p.outcomes.iter().map(|o| letter(o)).collect::<Vec<_>>().join("")
        );
        let imp = format!("runs={} exit={}", obs.runs, obs.exit);
        ctx.case(input, &op, &imp);
        ctx.count(&format!("{}:exit={}", p.cmd, obs.exit));
        ctx.count(&format!("{}:runs={}", p.cmd, obs.runs));
        let performed: Vec<String> = (0..obs.runs).map(|i| {
            letter(&effective(
                p.cmd == "server", &p.outcomes,
                if collector { p.break_at } else { None }, i
            )).to_string()
        }).collect();
        if performed.iter().any(|o| o != "o") {
            ctx.nontrivial(format!(
                "{}/{}/{}/{}", p.cmd, obs.runs, obs.exit, performed.join("")
            ));
        }
        if let Some((class, reason)) = oracle(&p, &obs) {
            ctx.oracle_fail(&class, &reason, input, json!({
                "runs": obs.runs, "exit": obs.exit, "stderr": obs.stderr
            }));
        }
    }
}
