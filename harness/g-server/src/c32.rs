pub fn run_c32(_ctx: &mut rvcore::Ctx) {}
