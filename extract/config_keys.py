#!/usr/bin/env python3
"""Extracts the configuration table of routinator's src/config.rs.

Reads $VERIF_REPO/src/config.rs (default /repo) and the `syslog` crate's
`Facility::from_str`, writes lean/RoutinatorModel/Generated/ConfigKeys.lean:

  * the `Config` struct fields (one table row per field),
  * per field: the default (`default_with_paths`), the reader in
    `from_config_file` (take_* kind = type and range, absent-default, unit),
    the printer in `to_toml` (key, presence condition, encoding, unit),
    the command line setters in `apply_arg_matches`/`apply_server_arg_matches`
    joined with the clap declarations in `GlobalArgs`/`ServerArgs`
    (type, range, repeatability),
  * the string enumerations (FilterPolicy, FallbackPolicy: FromStr/Display in
    config.rs; syslog facility: `facility_to_string` in config.rs and
    `Facility::from_str` in the syslog crate),
  * fingerprints of the hand-modelled blocks (log target print/read/CLI,
    verbosity, helper functions).

Unrecognised *expressions* become `unknown` entries (the Lean check `tableOk`
is then false: a broken proof obligation).  A missing *function or struct*
makes the extractor fail loudly with a non-zero exit code.

Strings are emitted as lists of UTF-8 bytes (kernel-friendly).
"""
import glob
import hashlib
import json
import os
import re
import sys

REPO = os.environ.get("VERIF_REPO") or "/repo"
VERIF = os.path.dirname(os.path.dirname(os.path.abspath(__file__)))
OUT = os.path.join(VERIF, "lean", "RoutinatorModel", "Generated", "ConfigKeys.lean")
NAMESPACE = "RoutinatorModel.Generated"
SOURCE = None


def cli_options():
    """`--source FILE --out FILE --namespace NS`: used once to produce the table of the
    pinned (unrepaired) source for the negation witnesses in Props/C35.lean."""
    global OUT, NAMESPACE, SOURCE
    a = sys.argv[1:]
    for i, x in enumerate(a):
        if x == "--source":
            SOURCE = a[i + 1]
        elif x == "--out":
            OUT = os.path.abspath(a[i + 1])
        elif x == "--namespace":
            NAMESPACE = a[i + 1]

I64MAX = 9223372036854775807
TYPE_MAX = {"u8": 255, "u16": 65535, "u32": 4294967295,
            "u64": 18446744073709551615, "usize": 18446744073709551615}


class Shape(Exception):
    pass


def die(msg):
    sys.stderr.write("config_keys.py: source shape changed: " + msg + "\n")
    sys.exit(3)


# ---------------------------------------------------------------- lexing

def strip_comments(src):
    """Removes // comments (incl. doc comments) and /* */, keeps strings."""
    out = []
    i, n = 0, len(src)
    while i < n:
        c = src[i]
        if c == '"':
            j = i + 1
            while j < n and src[j] != '"':
                j += 2 if src[j] == '\\' else 1
            out.append(src[i:j + 1])
            i = j + 1
        elif c == "'" and i + 2 < n and (src[i + 2] == "'" or (src[i + 1] == '\\' and i + 3 < n and src[i + 3] == "'")):
            j = i + (3 if src[i + 1] == '\\' else 2)
            out.append(src[i:j + 1])
            i = j + 1
        elif src.startswith("//", i):
            j = src.find("\n", i)
            i = n if j < 0 else j
        elif src.startswith("/*", i):
            j = src.find("*/", i)
            i = n if j < 0 else j + 2
        else:
            out.append(c)
            i += 1
    return "".join(out)


def match_close(src, i):
    """src[i] is an opening bracket; returns the index of its partner."""
    pairs = {"(": ")", "[": "]", "{": "}"}
    stack = []
    n = len(src)
    while i < n:
        c = src[i]
        if c == '"':
            i += 1
            while i < n and src[i] != '"':
                i += 2 if src[i] == '\\' else 1
        elif c in pairs:
            stack.append(pairs[c])
        elif c in ")]}":
            if not stack or stack.pop() != c:
                raise Shape("unbalanced brackets")
            if not stack:
                return i
        i += 1
    raise Shape("unbalanced brackets")


def norm(s):
    """Whitespace-free normal form used for pattern matching."""
    out = []
    i, n = 0, len(s)
    while i < n:
        c = s[i]
        if c == '"':
            j = i + 1
            while j < n and s[j] != '"':
                j += 2 if s[j] == '\\' else 1
            out.append(s[i:j + 1])
            i = j + 1
        elif c.isspace():
            # keep one blank between two word characters
            if out and i + 1 < n and re.match(r"\w", out[-1][-1]) and re.match(r"\w", s[i + 1:].lstrip()[:1] or " "):
                out.append(" ")
            i += 1
            while i < n and s[i].isspace():
                i += 1
        else:
            out.append(c)
            i += 1
    return "".join(out)


def fingerprint(s):
    return hashlib.sha256(norm(s).encode()).hexdigest()[:16]


def split_top(s, sep=","):
    """Splits at top-level separators."""
    parts, depth, cur = [], 0, []
    i, n = 0, len(s)
    while i < n:
        c = s[i]
        if c == '"':
            j = i + 1
            while j < n and s[j] != '"':
                j += 2 if s[j] == '\\' else 1
            cur.append(s[i:j + 1])
            i = j + 1
            continue
        if c in "([{":
            depth += 1
        elif c in ")]}":
            depth -= 1
        if c == sep and depth == 0:
            parts.append("".join(cur))
            cur = []
        # `<`/`>` of generics never contain a top-level comma in what we split
        else:
            cur.append(c)
        i += 1
    if "".join(cur).strip():
        parts.append("".join(cur))
    return parts


def find_block(src, header_re, what):
    """Finds `header {` and returns the text between the braces."""
    m = re.search(header_re, src)
    if not m:
        raise Shape("cannot find " + what)
    i = src.find("{", m.end() - 1)
    if i < 0:
        raise Shape("no body for " + what)
    j = match_close(src, i)
    return src[i + 1:j]


def find_fn(src, name, within=None):
    return find_block(within if within is not None else src,
                      r"fn\s+" + re.escape(name) + r"\s*(?:<[^>]*>)?\s*\(", "fn " + name)


def fn_body(src, name):
    """Body of fn `name`: skips the parameter list and return type."""
    m = re.search(r"fn\s+" + re.escape(name) + r"\s*(?:<[^>(]*>)?\s*\(", src)
    if not m:
        raise Shape("cannot find fn " + name)
    p = match_close(src, m.end() - 1)
    i = p + 1
    # skip return type and where clause up to the body's brace
    depth = 0
    while i < len(src):
        c = src[i]
        if c == "<":
            depth += 1
        elif c == ">" and src[i - 1] != "-":
            depth -= 1
        elif c == "{" and depth == 0:
            break
        elif c == ";" and depth == 0:
            raise Shape("fn " + name + " has no body")
        i += 1
    j = match_close(src, i)
    return src[i + 1:j]


def unbrace(e):
    e = e.strip()
    while e.startswith("{") and match_close(e, 0) == len(e) - 1:
        e = e[1:-1].strip()
    return e


# ---------------------------------------------------------------- pieces

def parse_consts(src):
    consts = {}
    for m in re.finditer(r"const\s+([A-Z0-9_]+)\s*:\s*([^=;]+?)\s*=\s*([^;]+);", src):
        consts[m.group(1)] = (norm(m.group(2)), norm(m.group(3)))
    return consts


def parse_struct_fields(body):
    """[(attrs:[str], name, type)] of a struct body (comments stripped)."""
    res = []
    i, n = 0, len(body)
    attrs = []
    while i < n:
        if body[i].isspace():
            i += 1
        elif body.startswith("#[", i):
            j = match_close(body, i + 1)
            attrs.append(body[i + 2:j])
            i = j + 1
        else:
            m = re.compile(r"(pub\s+)?(\w+)\s*:\s*").match(body, i)
            if not m:
                raise Shape("unexpected struct content: " + body[i:i + 40])
            j = m.end()
            depth = 0
            while j < n and not (body[j] == "," and depth == 0):
                if body[j] in "<([":
                    depth += 1
                elif body[j] in ">)]":
                    depth -= 1
                j += 1
            res.append((attrs, m.group(2), norm(body[m.end():j])))
            attrs = []
            i = j + 1
    return res


def parse_enum_strs(src, name):
    """FromStr and Display tables of an enum defined in config.rs."""
    frm = find_block(src, r"impl\s+FromStr\s+for\s+" + name + r"\s*\{", "FromStr for " + name)
    body = fn_body(frm, "from_str")
    parse = []
    mm = re.search(r"match\s+s\s*\{", body)
    if not mm:
        raise Shape(name + "::from_str is not a `match s`")
    arms = body[mm.end():match_close(body, mm.end() - 1)]
    for a in split_top(arms):
        a = norm(a)
        m = re.fullmatch(r'((?:"[^"]*"\|?)+)=>Ok\(' + name + r"::(\w+)\)", a)
        if m:
            for lit in re.findall(r'"([^"]*)"', m.group(1)):
                parse.append((lit, m.group(2)))
        elif re.match(r"_=>Err\(", a):
            pass
        else:
            raise Shape("unexpected arm in " + name + "::from_str: " + a)
    disp = find_block(src, r"impl\s+fmt::Display\s+for\s+" + name + r"\s*\{", "Display for " + name)
    body = fn_body(disp, "fmt")
    mm = re.search(r"f\.write_str\(\s*match\s+\*self\s*\{", body)
    if not mm:
        raise Shape(name + "::fmt is not write_str(match *self)")
    arms = body[mm.end():match_close(body, mm.end() - 1)]
    variants = []
    for a in split_top(arms):
        a = norm(a)
        m = re.fullmatch(name + r'::(\w+)=>"([^"]*)"', a)
        if not m:
            raise Shape("unexpected arm in Display for " + name + ": " + a)
        variants.append((m.group(1), m.group(2)))
    return {"ci": False, "variants": variants, "parse": parse}


def parse_facility(src):
    body = fn_body(src, "facility_to_string")
    mm = re.search(r"match\s+facility\s*\{", body)
    if not mm:
        raise Shape("facility_to_string is not a `match facility`")
    end = match_close(body, mm.end() - 1)
    if norm(body[end + 1:]) != ".into()":
        raise Shape("facility_to_string tail changed")
    variants = []
    for a in split_top(body[mm.end():end]):
        m = re.fullmatch(r'(LOG_\w+)=>"([^"]*)"', norm(a))
        if not m:
            raise Shape("unexpected arm in facility_to_string: " + norm(a))
        variants.append((m.group(1), m.group(2)))
    # Facility::from_str lives in the syslog crate.
    lock = open(os.path.join(REPO, "Cargo.lock"), encoding="utf8").read()
    m = re.search(r'name = "syslog"\nversion = "([^"]+)"', lock)
    if not m:
        raise Shape("syslog crate not in Cargo.lock")
    cands = sorted(glob.glob(os.path.expanduser(
        "~/.cargo/registry/src/*/syslog-" + m.group(1) + "/src/facility.rs")))
    cands += sorted(glob.glob(os.path.join(REPO, "vendor", "syslog*", "src", "facility.rs")))
    if not cands:
        raise Shape("syslog crate source not found")
    fsrc = strip_comments(open(cands[0], encoding="utf8").read())
    frm = find_block(fsrc, r"impl\s+FromStr\s+for\s+Facility\s*\{", "FromStr for Facility")
    body = fn_body(frm, "from_str")
    mm = re.search(r"match\s*&s\.to_lowercase\(\)\[\.\.\]\s*\{", body)
    if not mm:
        raise Shape("Facility::from_str is not a match on the lowercased string")
    parse = []
    for a in split_top(body[mm.end():match_close(body, mm.end() - 1)]):
        a = norm(a)
        m = re.fullmatch(r'((?:"[^"]*"\|?)+)=>Facility::(LOG_\w+)', a)
        if m:
            for lit in re.findall(r'"([^"]*)"', m.group(1)):
                parse.append((lit, m.group(2)))
        elif a.startswith("_=>"):
            pass
        else:
            raise Shape("unexpected arm in Facility::from_str: " + a)
    return {"ci": True, "variants": variants, "parse": parse}


# ---------------------------------------------------------------- values

def lit_str(s):
    return {"str": s}


class Ctx:
    def __init__(self):
        self.consts = {}
        self.enums = {}      # type name -> table
        self.types = []      # parsed type names (index = ty id)

    def ty_id(self, name):
        if name not in self.types:
            self.types.append(name)
        return self.types.index(name)


def resolve_value(cx, e, depth=0):
    """Resolves a default/constant expression to a model value (dict) or None."""
    e = norm(e)
    if depth > 5:
        return None
    if e in ("false", "true"):
        return {"bool": e == "true"}
    if re.fullmatch(r"[0-9_]+", e):
        return {"nat": int(e.replace("_", ""))}
    m = re.fullmatch(r"Duration::from_secs\((.+)\)", e)
    if m:
        v = resolve_value(cx, m.group(1), depth + 1)
        return v if v and "nat" in v else None
    m = re.fullmatch(r"Some\((.+)\)", e)
    if m:
        v = resolve_value(cx, m.group(1), depth + 1)
        if v and "nat" in v:
            return {"optNat": v["nat"]}
        if v and "str" in v:
            return {"optStr": v["str"]}
        return None
    if e == "None":
        return {"none": True}
    if e in ("Vec::new()", "vec![]", "Default::default()"):
        return {"strs": []}
    if e == "HashMap::new()":
        return {"pairs": []}
    m = re.fullmatch(r'"([^"\\]*)"\.(?:into|to_string|to_owned)\(\)|String::from\("([^"\\]*)"\)', e)
    if m:
        return {"str": m.group(1) if m.group(1) is not None else m.group(2)}
    m = re.fullmatch(r"(\w+)::(\w+)", e)
    if m and m.group(1) in cx.enums:
        for v, d in cx.enums[m.group(1)]["variants"]:
            if v == m.group(2):
                return {"str": d}
        return None
    if m and m.group(1) == "LevelFilter":
        return {"str": m.group(2).upper()}
    if re.fullmatch(r"[A-Z][A-Z0-9_]+", e) and e in cx.consts:
        return resolve_value(cx, cx.consts[e][1], depth + 1)
    return None


def typed_default(cx, v, fty):
    """Coerces a resolved value to the field type's FVal."""
    if v is None:
        return None
    if fty == "bool" and "bool" in v:
        return v
    if fty == "nat" and "nat" in v:
        return v
    if fty == "optNat":
        if "none" in v:
            return {"optNat": None}
        if "optNat" in v:
            return v
    if fty == "str" and "str" in v:
        return v
    if fty == "optStr":
        if "none" in v:
            return {"optStr": None}
        if "optStr" in v:
            return v
    if fty == "strs" and "strs" in v:
        return v
    if fty == "optStrs":
        if "none" in v:
            return {"optStrs": None}
    if fty == "pairs" and "pairs" in v:
        return v
    return None


def field_type(cx, rust):
    """(fty, skind, unit) of a Config field's Rust type."""
    opt = re.fullmatch(r"Option<(.+)>", rust)
    inner = opt.group(1) if opt else rust
    vec = re.fullmatch(r"Vec<(.+)>", inner)
    elem = vec.group(1) if vec else inner
    if elem == "bool" and not vec and not opt:
        return ("bool", None, None)
    if elem in TYPE_MAX and not vec:
        return ("optNat" if opt else "nat", None, "plain")
    if elem == "Duration" and not vec:
        return ("optNat" if opt else "nat", None, "secs")
    if elem == "String":
        sk = {"k": "raw"}
    elif elem == "PathBuf":
        sk = {"k": "path"}
    elif elem == "LogTarget" and not vec and not opt:
        return ("log", None, None)
    elif elem == "HashMap<String,String>" and not vec and not opt:
        return ("pairs", None, None)
    elif re.fullmatch(r"\w+", elem):
        sk = {"k": "parsed", "ty": cx.ty_id(elem)}
    else:
        return ("unknown", None, None)
    if vec:
        return ("optStrs" if opt else "strs", sk, None)
    return ("optStr" if opt else "str", sk, None)


# ---------------------------------------------------------------- readers

def classify_reader(cx, fname, expr, ftype):
    """Classifies a field initialiser of `from_config_file`."""
    fty, fsk, funit = ftype
    e = norm(unbrace(expr))
    R = {"kind": "file"}

    def default_of(d):
        d = norm(d)
        if d == "Config::default_validation_threads()":
            return {"env": "validation_threads"}
        m = re.fullmatch(r"\|\|\{?(.+?)\}?", d)
        if m:
            return default_of(m.group(1))
        v = typed_default(cx, resolve_value(cx, d), fty)
        return {"lit": v} if v is not None else None

    if e == "file.path.clone()":
        return {"kind": "filePath"}
    if e == "false" or e == "true":
        return {"kind": "const", "const": {"lit": {"bool": e == "true"}}}
    if e == "DEFAULT_RRDP_USER_AGENT.to_string()" and fty == "str":
        return {"kind": "const", "const": {"env": "user_agent"}}
    if e == fname and fty == "log":
        return dict(R, codec="log", keys="LOG")
    m = re.fullmatch(r'file\.take_mandatory_path\("([^"]+)"\)\?', e)
    if m and fty == "str":
        return dict(R, keys=[m.group(1)], codec="str", sk={"k": "path"}, absent=None)
    m = re.fullmatch(r'file\.take_bool\("([^"]+)"\)\?\.unwrap_or\((\w+)\)', e)
    if m and fty == "bool":
        d = default_of(m.group(2))
        if d:
            return dict(R, keys=[m.group(1)], codec="bool", absent=d)
    m = re.fullmatch(r'file\.take_(string_array|path_array|from_str_array)\("([^"]+)"\)\?(\.unwrap_or_default\(\))?', e)
    if m and fty in ("strs", "optStrs"):
        kind, key, dflt = m.groups()
        if kind == "string_array":
            sk = {"k": "raw"}
        elif kind == "path_array":
            sk = {"k": "path"}
        else:
            sk = {"k": "plainPath"} if fsk["k"] == "path" else fsk
        if fty == "strs" and dflt:
            return dict(R, keys=[key], codec="strs", sk=sk, absent={"lit": {"strs": []}},
                        single=(kind == "path_array"))
        if fty == "optStrs" and not dflt:
            return dict(R, keys=[key], codec="strsPresent", sk=sk, absent={"lit": {"optStrs": None}},
                        single=(kind == "path_array"))
    m = re.fullmatch(r'file\.take_(path|string|from_str)\("([^"]+)"\)\?', e)
    if m and fty == "optStr":
        kind, key = m.groups()
        sk = {"k": "path"} if kind == "path" else {"k": "raw"} if kind == "string" else \
            ({"k": "plainPath"} if fsk["k"] == "path" else fsk)
        return dict(R, keys=[key], codec="strPresent", sk=sk, absent={"lit": {"optStr": None}})
    m = re.fullmatch(r'file\.take_(string|from_str)\("([^"]+)"\)\?\.unwrap_or(?:_else)?\((.+)\)', e)
    if m and fty == "str":
        kind, key, d = m.groups()
        d = default_of(d)
        sk = {"k": "raw"} if kind == "string" else ({"k": "plainPath"} if fsk["k"] == "path" else fsk)
        if d:
            return dict(R, keys=[key], codec="str", sk=sk, absent=d)
    m = re.fullmatch(r'file\.take_limited_u8\("([^"]+)",(\d+)\)\?', e)
    if m and fty == "optNat":
        return dict(R, keys=[m.group(1)], codec="natPresent", unit="plain",
                    take="limited_u8", limit=int(m.group(2)), absent={"lit": {"optNat": None}})
    m = re.fullmatch(r'file\.take_string_map\("([^"]+)"\)\?\.unwrap_or_default\(\)', e)
    if m and fty == "pairs":
        return dict(R, keys=[m.group(1)], codec="pairsNonEmpty", absent={"lit": {"pairs": []}})
    # integers
    take = r'file\.take_(u64|usize|small_usize)\("([^"]+)"\)\?'
    m = re.fullmatch(r"match " + take + r"\{(.+)\}", e)
    if m and fty == "optNat":
        arms = [norm(a) for a in split_top(m.group(3))]
        unit = None
        absent = None
        zero = False
        ok = True
        for a in arms:
            if a == "Some(0)=>None":
                zero = True
            elif re.fullmatch(r"Some\((\w+)\)=>Some\(Duration::from_secs\(\1\)\)", a):
                unit = "secs"
            elif re.fullmatch(r"Some\((\w+)\)=>Some\(\1\)", a):
                unit = "plain"
            elif a.startswith("None=>"):
                absent = default_of(a[6:])
            else:
                ok = False
        if ok and zero and unit and absent and unit == funit:
            return dict(R, keys=[m.group(2)], codec="natZeroNone", unit=unit, take=m.group(1), absent=absent)
    m = re.fullmatch(take + r"\.map\(Duration::from_secs\)(?:\.unwrap_or\((.+)\))?", e)
    if m and funit == "secs":
        if m.group(3) and fty == "nat":
            d = default_of(m.group(3))
            if d:
                return dict(R, keys=[m.group(2)], codec="nat", unit="secs", take=m.group(1), absent=d)
        if not m.group(3) and fty == "optNat":
            return dict(R, keys=[m.group(2)], codec="natPresent", unit="secs", take=m.group(1),
                        absent={"lit": {"optNat": None}})
    m = re.fullmatch(r"Duration::from_secs\(" + take + r"\.unwrap_or\((.+)\)\)", e)
    if m and fty == "nat" and funit == "secs":
        d = default_of(m.group(3))
        if d:
            return dict(R, keys=[m.group(2)], codec="nat", unit="secs", take=m.group(1), absent=d)
    m = re.fullmatch(take + r"\.unwrap_or(?:_else)?\((.+)\)", e)
    if m and fty == "nat" and funit == "plain":
        d = default_of(m.group(3))
        if d:
            return dict(R, keys=[m.group(2)], codec="nat", unit="plain", take=m.group(1), absent=d)
    m = re.fullmatch(take, e)
    if m and fty == "optNat" and funit == "plain":
        return dict(R, keys=[m.group(2)], codec="natPresent", unit="plain", take=m.group(1),
                    absent={"lit": {"optNat": None}})
    keys = re.findall(r'file\.take_\w+\("([^"]+)"', e)
    return {"kind": "unknown", "keys": keys, "expr": e}


def reader_limits(src):
    """Ranges enforced by the take_* readers (from their bodies)."""
    cf = find_block(src, r"impl\s+ConfigFile\s*\{", "impl ConfigFile")
    lim = {}
    b = norm(fn_body(cf, "take_u64"))
    if "Some(toml::Value::Integer(value))=>{match u64::try_from(value.into_value()){Ok(value)=>Ok(Some(value))," not in b:
        raise Shape("take_u64 body changed")
    lim["u64"] = I64MAX  # a TOML integer is an i64; negative values are rejected
    b = norm(fn_body(cf, "take_usize"))
    if "match self.take_u64(key)?{Some(value)=>{match usize::try_from(value){Ok(value)=>Ok(Some(value))," not in b:
        raise Shape("take_usize body changed")
    lim["usize"] = I64MAX
    b = norm(fn_body(cf, "take_small_usize"))
    m = re.search(r"match self\.take_usize\(key\)\?\{Some\(value\)=>\{if value(>=|>)(u8|u16|u32)::MAX\.into\(\)\{", b)
    if not m or "else{Ok(Some(value))}" not in b:
        raise Shape("take_small_usize body changed")
    lim["small_usize"] = TYPE_MAX[m.group(2)] - (1 if m.group(1) == ">=" else 0)
    b = norm(fn_body(cf, "take_limited_u8"))
    m = re.search(r"match self\.take_u64\(key\)\?\{Some\(value\)=>\{match u8::try_from\(value\)\{Ok\(value\)=>\{if value(>=|>)limit\{", b)
    if not m or "else{Ok(Some(value))}" not in b:
        raise Shape("take_limited_u8 body changed")
    lim["limited_u8_strict"] = (m.group(1) == ">=")
    fps = {}
    for name in ("take_value", "take_bool", "take_string", "take_from_str", "take_path",
                 "take_mandatory_path", "take_string_array", "take_from_str_array",
                 "take_path_array", "take_string_map", "check_exhausted"):
        # error messages do not matter: drop error!(..)/print!(..) calls
        body = fn_body(cf, name)
        body = re.sub(r"\b(error|print|eprintln|warn)!\s*\(", "\x00(", body)
        while "\x00(" in body:
            i = body.index("\x00(")
            j = match_close(body, i + 1)
            body = body[:i] + "LOG" + body[j + 1:]
        fps[name] = fingerprint(body)
    return lim, fps


EXPECTED_READER_FPS = None  # filled below (pinned shapes of the hand-modelled readers)


# ---------------------------------------------------------------- printers

def classify_print_expr(cx, e, var, ftype, is_int):
    """Classifies the value expression of an insert/insert_int call.

    `var` is the bound variable of an enclosing `if let Some(var) = self.f`,
    or None.  Returns (codec-base, unit, field) or None."""
    fty, fsk, funit = ftype
    e = norm(e)
    x = r"(?:self\.(\w+)|" + (re.escape(var) if var else r"\0") + ")"
    if is_int:
        for pat, codec, unit in (
            (x, "nat", "plain"),
            (x + r"\.as_secs\(\)", "nat", "secs"),
            (r"i64::from\(" + x + r"\)", "nat", "plain"),
        ):
            m = re.fullmatch(pat, e)
            if m:
                return codec, unit
        m = re.fullmatch(r"match self\.\w+\{(.+)\}", e)
        if m:
            arms = sorted(norm(a) for a in split_top(m.group(1)))
            if len(arms) == 2 and arms[0] == "None=>0" and \
                    re.fullmatch(r"Some\((\w+)\)=>\1\.as_secs\(\)", arms[1]):
                return "natZeroNone", "secs"
        if re.fullmatch(r"self\.\w+\.unwrap_or\(0\)", e):
            return "natZeroNone", "plain"
        return None
    # non-integer inserts
    if re.fullmatch(x, e) and fty == "bool":
        return "bool", None
    if re.fullmatch(r"i64::from\(" + x + r"\)", e) and fty in ("nat", "optNat"):
        return "nat", "plain"
    conv_ok = {
        "raw": [r"{X}\.clone\(\)", r"{X}\.to_string\(\)", r"{X}\.as_str\(\)"],
        "path": [r"{X}\.display\(\)\.to_string\(\)"],
        "parsed": [r"{X}\.to_string\(\)", r'format!\("\{\}",{X}\)'],
    }
    if fty in ("str", "optStr"):
        for pat in conv_ok[fsk["k"]]:
            if re.fullmatch(pat.replace("{X}", x), e):
                return "str", None
        return None
    if fty in ("strs", "optStrs"):
        m = re.fullmatch(r"toml::Value::Array\(" + x + r"\.iter\(\)\.map\(\|(\w+)\|\{?toml::Value::from\((.+?)\)\}?\)\.collect\(\)\)", e)
        if m:
            it = m.group(m.lastindex - 1)
            conv = m.group(m.lastindex)
            for pat in conv_ok[fsk["k"]]:
                if re.fullmatch(pat.replace("{X}", re.escape(it)), conv):
                    return "strs", None
        return None
    if fty == "pairs":
        want = ("toml::Value::Array(self.F.iter().map(|(left,right)|{toml::Value::Array([toml::Value::from("
                "left.clone()),toml::Value::from(right.clone()),].into_iter().collect())}).collect())")
        if re.sub(r"self\.\w+", "self.F", e) == want:
            return "pairs", None
    return None


def parse_statements(body):
    """Splits a function body into top-level statements (text chunks)."""
    stmts = []
    i, n = 0, len(body)
    start = 0
    while i < n:
        c = body[i]
        if c == '"':
            i += 1
            while i < n and body[i] != '"':
                i += 2 if body[i] == '\\' else 1
            i += 1
        elif c in "([":
            i = match_close(body, i) + 1
        elif c == "{":
            j = match_close(body, i)
            # a block ends a statement if it began with a keyword
            head = body[start:i].strip()
            i = j + 1
            if re.match(r"(if|match|for|while|loop|fn|else)\b", head) or head == "":
                # swallow `else` chains
                k = i
                while k < n and body[k].isspace():
                    k += 1
                if body.startswith("else", k):
                    continue
                stmts.append(body[start:i].strip())
                start = i
        elif c == ";":
            stmts.append(body[start:i + 1].strip())
            i += 1
            start = i
        else:
            i += 1
    tail = body[start:].strip()
    if tail:
        stmts.append(tail)
    return [s for s in stmts if s]


def parse_to_toml(cx, src, fields):
    body = fn_body(src, "to_toml")
    stmts = parse_statements(body)
    printers = {}   # field -> printer
    extra = []      # printers that could not be attached to a field
    info = {"insert": None, "insert_int": None, "log": None}

    def attach(fname, pr):
        if fname in printers:
            # two printers for one field: model cannot express it
            printers[fname] = {"codec": "unknown", "keys": printers[fname]["keys"] + pr["keys"], "expr": "duplicate"}
        else:
            printers[fname] = pr

    def do_insert(stmt, cond, var, cfield):
        m = re.fullmatch(r"(insert|insert_int)\(&mut res,\"([^\"]+)\",(.+?),?\);", norm(stmt))
        if not m:
            return False
        fn, key, e = m.groups()
        fm = re.search(r"self\.(\w+)", e)
        fname = cfield or (fm.group(1) if fm else None)
        if fname is None or fname not in fields:
            extra.append({"keys": [key], "codec": "unknown", "expr": e})
            return True
        cls = classify_print_expr(cx, e, var, fields[fname], fn == "insert_int")
        pr = {"keys": [key], "clamp": fn == "insert_int", "cond": cond}
        if cls is None:
            pr.update(codec="unknown", expr=e)
        else:
            base, unit = cls
            fty = fields[fname][0]
            codec = None
            if base == "bool" and cond == "always":
                codec = "bool"
            elif base == "nat" and cond == "always" and fty == "nat":
                codec = "nat"
            elif base == "nat" and cond == "some" and fty == "optNat":
                codec = "natPresent"
            elif base == "natZeroNone" and cond == "always" and fty == "optNat":
                codec = "natZeroNone"
            elif base == "str" and cond == "always" and fty == "str":
                codec = "str"
            elif base == "str" and cond == "some" and fty == "optStr":
                codec = "strPresent"
            elif base == "strs" and cond == "always" and fty == "strs":
                codec = "strs"
            elif base == "strs" and cond == "some" and fty == "optStrs":
                codec = "strsPresent"
            elif base == "pairs" and cond == "nonempty":
                codec = "pairsNonEmpty"
            if codec is None:
                pr.update(codec="unknown", expr=e + " [cond " + cond + "]")
            else:
                pr.update(codec=codec, unit=unit or "plain")
        attach(fname, pr)
        return True

    for st in stmts:
        ns = norm(st)
        if ns.startswith("fn insert("):
            info["insert"] = fingerprint(st)
            continue
        if ns.startswith("fn insert_int("):
            info["insert_int"] = fingerprint(st)
            continue
        if ns == "let mut res=toml::Table::new();" or ns == "res":
            continue
        if do_insert(st, "always", None, None):
            continue
        m = re.fullmatch(r"if let Some\((?:ref )?(\w+)\)=self\.(\w+)(?:\.as_ref\(\))?\{(.+)\}", ns)
        if m:
            var, fname, inner = m.groups()
            inner_stmts = parse_statements(st[st.index("{") + 1:st.rindex("}")])
            if len(inner_stmts) == 1 and do_insert(inner_stmts[0], "some", var, fname):
                continue
        m = re.fullmatch(r"if ?!self\.(\w+)\.is_empty\(\)\{(.+)\}", ns)
        if m:
            inner_stmts = parse_statements(st[st.index("{") + 1:st.rindex("}")])
            if len(inner_stmts) == 1 and do_insert(inner_stmts[0], "nonempty", None, m.group(1)):
                continue
        if ns.startswith("match self.log_target{"):
            info["log"] = fingerprint(re.sub(r"#\[cfg\(unix\)\]", "", st))
            keys = re.findall(r'insert\(&mut\s*res,\s*"([^"]+)"', st)
            info["log_keys"] = keys
            continue
        raise Shape("unrecognised statement in to_toml: " + ns[:120])
    return printers, extra, info


# ---------------------------------------------------------------- CLI

def parse_args_struct(cx, src, name):
    body = find_block(src, r"struct\s+" + name + r"\s*\{", "struct " + name)
    res = {}
    for attrs, fname, rust in parse_struct_fields(body):
        a = " ".join(norm(x) for x in attrs if norm(x).startswith("arg("))
        if not a:
            raise Shape(name + "." + fname + " has no #[arg]")
        a = a[4:-1]
        opts = split_top(a)
        d = {"field": fname, "rust": rust, "long": fname.replace("_", "-"), "short": None,
             "count": False, "conflicts": [], "max": None, "struct": name}
        for o in opts:
            o = norm(o)
            if o == "long":
                pass
            elif o == "short":
                d["short"] = fname[0]
            elif re.fullmatch(r'long="([^"]+)"', o):
                d["long"] = re.fullmatch(r'long="([^"]+)"', o).group(1)
            elif re.fullmatch(r"short='(.)'", o):
                d["short"] = re.fullmatch(r"short='(.)'", o).group(1)
            elif o.startswith("value_name="):
                pass
            elif o == "action=ArgAction::Count":
                d["count"] = True
            elif re.fullmatch(r'conflicts_with="(\w+)"', o):
                d["conflicts"].append(re.fullmatch(r'conflicts_with="(\w+)"', o).group(1))
            elif o.startswith("value_parser="):
                m = re.fullmatch(r"value_parser=clap::value_parser!\((u8|u16|u32|u64)\)(?:\.range\(\.\.=(\d+)\))?", o)
                if not m:
                    d["bad"] = o
                else:
                    d["vp_type"] = m.group(1)
                    d["max"] = min(TYPE_MAX[m.group(1)], int(m.group(2))) if m.group(2) else TYPE_MAX[m.group(1)]
            else:
                d["bad"] = o
        # arity and value type
        m = re.fullmatch(r"Option<Vec<(.+)>>", rust)
        if m:
            d["arity"], d["vt"] = "append", m.group(1)
        elif re.fullmatch(r"Option<(.+)>", rust):
            d["arity"], d["vt"] = "single", re.fullmatch(r"Option<(.+)>", rust).group(1)
        elif rust == "bool":
            d["arity"], d["vt"] = "flag", "bool"
        elif d["count"] and rust == "u8":
            d["arity"], d["vt"] = "count", "u8"
        else:
            d["bad"] = "type " + rust
            d["arity"], d["vt"] = "single", rust
        vt = d["vt"]
        if vt in TYPE_MAX and d["arity"] in ("single", "append"):
            d["vkind"] = "nat"
            if d["max"] is None:
                d["max"] = TYPE_MAX[vt]
            elif d.get("vp_type") and TYPE_MAX[d["vp_type"]] > TYPE_MAX[vt]:
                d["bad"] = "value parser wider than field"
        elif vt == "String":
            d["vkind"], d["sk"] = "str", {"k": "raw"}
        elif vt == "PathBuf":
            d["vkind"], d["sk"] = "str", {"k": "path"}
        elif re.fullmatch(r"\w+", vt) and vt not in ("bool", "u8"):
            d["vkind"], d["sk"] = "str", {"k": "parsed", "ty": cx.ty_id(vt)}
        res[fname] = d
    return res


LOGLEVEL_BLOCK = ("if args.verbose>1{self.log_level=LevelFilter::Debug}else if args.verbose==1{"
                  "self.log_level=LevelFilter::Info}else if args.quiet>1{self.log_level=LevelFilter::Off}"
                  "else if args.quiet==1{self.log_level=LevelFilter::Error}")
TALS_LIST_BLOCK = ("if let Some(tals)=args.bundled_tals.as_ref(){if tals.iter().any(|tal|tal==\"list\"){"
                   "tals::print_tals();process::exit(0);}}")
APPLY_LOG_UNIX = ("if args.syslog{if let Some(facility)=args.syslog_facility.as_ref(){self.log_target="
                  "LogTarget::Syslog(match Facility::from_str(facility){Ok(value)=>value,Err(_)=>{LOG;"
                  "return Err(Failed);}})}else if!matches!(self.log_target,LogTarget::Syslog(_)){"
                  "self.log_target=LogTarget::Syslog(DEFAULT_SYSLOG_FACILITY)}}else if let Some(file)="
                  "args.logfile.as_ref(){if file==\"-\"{self.log_target=LogTarget::Stderr}else{"
                  "self.log_target=LogTarget::File(cur_dir.join(file))}}Ok(())")
LOG_READ_UNIX = ("let facility=file.take_string(\"syslog-facility\")?;let facility=facility.as_ref().map("
                 "AsRef::as_ref).unwrap_or(\"daemon\");let facility=match Facility::from_str(facility){"
                 "Ok(value)=>value,Err(_)=>{LOG;return Err(Failed);}};let log_target=file.take_string("
                 "\"log\")?;let log_file=file.take_path(\"log-file\")?;match log_target.as_ref().map("
                 "AsRef::as_ref){Some(\"default\")|None=>Ok(LogTarget::Default(facility)),Some(\"syslog\")"
                 "=>Ok(LogTarget::Syslog(facility)),Some(\"stderr\")=>Ok(LogTarget::Stderr),Some(\"file\")"
                 "=>{match log_file{Some(file)=>Ok(LogTarget::File(file)),None=>{LOG;Err(Failed)}}}"
                 "Some(value)=>{LOG;Err(Failed)}}")
LOG_PRINT_UNIX = ("match self.log_target{LogTarget::Default(facility)=>{insert(&mut res,\"log\",\"default\");"
                  "insert(&mut res,\"syslog-facility\",facility_to_string(facility));}LogTarget::Syslog("
                  "facility)=>{insert(&mut res,\"log\",\"syslog\");insert(&mut res,\"syslog-facility\","
                  "facility_to_string(facility));}LogTarget::Stderr=>{insert(&mut res,\"log\",\"stderr\");}"
                  "LogTarget::File(ref file)=>{insert(&mut res,\"log\",\"file\");insert(&mut res,"
                  "\"log-file\",file.display().to_string());}}")
INSERT_FN = "fn insert(table:&mut toml::Table,key:&str,value:impl Into<toml::Value>,){table.insert(key,toml::Item::Value(value.into()));}"
INSERT_INT_FN = "fn insert_int(table:&mut toml::Table,key:&str,value:impl TryInto<i64>,){insert(table,key,value.try_into().unwrap_or(i64::MAX))}"


def strip_logs(body):
    body = re.sub(r"\b(error|print|eprintln|warn)!\s*\(", "\x00(", body)
    while "\x00(" in body:
        i = body.index("\x00(")
        j = match_close(body, i + 1)
        body = body[:i] + "LOG" + body[j + 1:]
    return body


def unix_only(src_fn_region):
    return re.sub(r"#\[cfg\(unix\)\]", "", src_fn_region)


def parse_apply(cx, src, fn, argdefs, fields):
    """Parses apply_arg_matches / apply_server_arg_matches."""
    body = fn_body(src, fn)
    setters = []     # {"arg":…, "field":…, "act":…, …}
    special = {"loglevel": False, "logtarget": False, "tals_list": False, "cache_check": False}
    for st in parse_statements(body):
        ns = norm(strip_logs(st))
        if re.fullmatch(r"let args=\w+::from_arg_matches\(matches\)\.expect\(\"[^\"]*\"\);", ns):
            continue
        if ns == "Ok(())":
            continue
        if ns == TALS_LIST_BLOCK:
            special["tals_list"] = True
            continue
        if ns == "self.apply_log_matches(&args,cur_dir)?;":
            special["logtarget"] = True
            continue
        if ns == "if self.cache_dir==Path::new(\"\"){LOG;return Err(Failed)}":
            special["cache_check"] = True
            continue
        if ns == LOGLEVEL_BLOCK:
            special["loglevel"] = True
            continue
        m = re.fullmatch(r"if args\.(\w+)\{self\.(\w+)=true;?\}", ns)
        if m and m.group(1) in argdefs and argdefs[m.group(1)]["arity"] == "flag":
            setters.append({"arg": m.group(1), "field": m.group(2), "act": "setTrue"})
            continue
        m = re.fullmatch(r"if let Some\((\w+)\)=args\.(\w+)\{(.+)\}", ns)
        if m and m.group(2) in argdefs:
            var, arg, inner = m.groups()
            ad = argdefs[arg]
            V = re.escape(var)
            act = None
            fname = None
            unit = "plain"
            sk = ad.get("sk")
            mm = re.fullmatch(r"self\.(\w+)=(.+?);?", inner)
            zn = re.fullmatch(r"if " + V + r"==0\{self\.(\w+)=None\}else\{self\.\1=Some\((.+?)\)\}", inner)
            if zn:
                fname, e = zn.groups()
                if e == var:
                    act, unit = "natZeroNone", "plain"
                elif e == "Duration::from_secs(" + var + ")":
                    act, unit = "natZeroNone", "secs"
            elif mm:
                fname, e = mm.groups()
                conv = r"(?:" + V + r"|" + V + r"\.into\(\)|usize::from\(" + V + r"\)|u64::from\(" + V + r"\))"
                if ad.get("vkind") == "nat" and ad["arity"] == "single":
                    if re.fullmatch(conv, e):
                        act = "nat"
                    elif re.fullmatch(r"Some\(" + conv + r"\)", e):
                        act = "natSome"
                    elif re.fullmatch(r"Duration::from_secs\(" + conv + r"\)", e):
                        act, unit = "nat", "secs"
                    elif re.fullmatch(r"Some\(Duration::from_secs\(" + conv + r"\)\)", e):
                        act, unit = "natSome", "secs"
                    else:
                        z = re.fullmatch(r"if " + V + r"==0\{None\}else\{Some\((.+)\)\}", e)
                        if z and z.group(1) == "Duration::from_secs(" + var + ")":
                            act, unit = "natZeroNone", "secs"
                        elif z and z.group(1) == var:
                            act, unit = "natZeroNone", "plain"
                elif ad.get("vkind") == "str" and ad["arity"] == "single":
                    if e == var and sk["k"] != "path":
                        act = "str"
                    elif e == "Some(" + var + ")" and sk["k"] != "path":
                        act = "strSome"
                    elif e == "cur_dir.join(" + var + ")":
                        act, sk = "str", {"k": "path"}
                    elif e == "Some(cur_dir.join(" + var + "))":
                        act, sk = "strSome", {"k": "path"}
                    elif sk["k"] == "path" and e in (var, "Some(" + var + ")"):
                        # a PathBuf taken as is (not joined): plain path
                        act, sk = ("str" if e == var else "strSome"), {"k": "plainPath"}
                elif ad.get("vkind") == "str" and ad["arity"] == "append":
                    if e == var and sk["k"] != "path":
                        act = "strs"
                    elif re.fullmatch(V + r"\.into_iter\(\)\.map\(\|(\w+)\|\{?cur_dir\.join\(\1\)\}?\)\.collect\(\)", e):
                        act, sk = "strs", {"k": "path"}
            if fname is not None and fname in fields:
                s = {"arg": arg, "field": fname, "act": act or "unknown", "unit": unit}
                if sk:
                    s["sk"] = sk
                if act is None:
                    s["expr"] = inner
                setters.append(s)
                continue
        raise Shape("unrecognised statement in " + fn + ": " + ns[:160])
    return setters, special


# ---------------------------------------------------------------- main

def lean_str(s):
    b = s.encode("utf8")
    return "[" + ", ".join(str(x) for x in b) + "]"


def main():
    cli_options()
    path = SOURCE or os.path.join(REPO, "src", "config.rs")
    try:
        raw = open(path, encoding="utf8").read()
    except OSError as e:
        die("cannot read " + path + ": " + str(e))
    src = strip_comments(raw)
    # cut off the test module
    cut = src.find("#[cfg(test)]\nmod test")
    if cut > 0:
        src = src[:cut]
    try:
        table = extract(src)
    except Shape as e:
        die(str(e))
    text = emit(table)
    os.makedirs(os.path.dirname(OUT), exist_ok=True)
    old = open(OUT, encoding="utf8").read() if os.path.exists(OUT) else None
    if old != text:
        with open(OUT, "w", encoding="utf8") as f:
            f.write(text)
    if "--json" in sys.argv:
        json.dump(table, sys.stdout, indent=1)
        print()
    unknown = [r["field"] for r in table["rows"]
               if r["reader"].get("kind") == "unknown"
               or (r.get("printer") or {}).get("codec") == "unknown"
               or any(c["act"] == "unknown" for c in r["clis"])]
    print("config_keys.py: %d fields, %d printed, %d file keys, %d CLI options%s" % (
        len(table["rows"]), sum(1 for r in table["rows"] if r.get("printer")),
        sum(len(r["reader"].get("keys", [])) for r in table["rows"]),
        sum(len(r["clis"]) for r in table["rows"]),
        (", unrecognised: " + ",".join(unknown)) if unknown else ""))
    return 0


def extract(src):
    cx = Ctx()
    cx.consts = parse_consts(src)
    for name in ("FilterPolicy", "FallbackPolicy"):
        cx.enums[name] = parse_enum_strs(src, name)
        cx.ty_id(name)
    cx.enums["Facility"] = parse_facility(src)
    fac_ty = cx.ty_id("Facility")
    level_ty = cx.ty_id("LevelFilter")

    # --- Config fields
    cbody = find_block(src, r"pub\s+struct\s+Config\s*\{", "struct Config")
    fields = {}
    order = []
    for attrs, fname, rust in parse_struct_fields(cbody):
        fields[fname] = field_type(cx, rust)
        order.append((fname, rust))

    # --- defaults
    dbody = fn_body(src, "default_with_paths")
    m = re.search(r"Self\s*\{", dbody)
    if not m:
        raise Shape("default_with_paths does not build Self { .. }")
    dinit = dbody[m.end():match_close(dbody, m.end() - 1)]
    defaults = {}
    for part in split_top(dinit):
        part = part.strip()
        mm = re.fullmatch(r"(\w+)\s*(?::\s*(.+))?", part, re.S)
        if not mm:
            raise Shape("default_with_paths: unexpected initialiser " + norm(part)[:80])
        fname, e = mm.group(1), mm.group(2)
        if fname not in fields:
            raise Shape("default_with_paths: unknown field " + fname)
        fty = fields[fname][0]
        if e is None:
            defaults[fname] = {"env": fname}
            continue
        e = norm(e)
        if e == "Config::default_validation_threads()":
            defaults[fname] = {"env": "validation_threads"}
        elif e == "DEFAULT_RRDP_USER_AGENT.to_string()":
            defaults[fname] = {"env": "user_agent"}
        elif e == "LogTarget::default()" and fty == "log":
            defaults[fname] = {"lit": {"log": ["dflt", "daemon"]}}
        else:
            v = typed_default(cx, resolve_value(cx, e), fty)
            defaults[fname] = {"lit": v} if v is not None else {"unknown": e}
    # LogTarget::default() on unix
    ld = find_block(src, r"#\[cfg\(unix\)\]\s*impl\s+Default\s+for\s+LogTarget\s*\{", "Default for LogTarget (unix)")
    log_default_ok = norm(fn_body(ld, "default")) == "LogTarget::Default(Facility::LOG_DAEMON)"
    cd = find_block(src, r"impl\s+Default\s+for\s+Config\s*\{", "Default for Config")
    config_default_ok = norm(fn_body(cd, "default")) == (
        "match home_dir(){Some(dir)=>{Config::default_with_paths(dir.join(\".routinator.conf\"),"
        "dir.join(\".rpki-cache/repository\"),)}None=>{Config::default_with_paths(PathBuf::from(\"\"),"
        "PathBuf::from(\"\"),)}}")
    dsf = cx.consts.get("DEFAULT_SYSLOG_FACILITY", ("", ""))[1]

    # --- readers
    rbody = fn_body(src, "from_config_file")
    m = re.search(r"let\s+res\s*=\s*Config\s*\{", rbody)
    if not m:
        raise Shape("from_config_file does not build `let res = Config { .. }`")
    end = match_close(rbody, m.end() - 1)
    readers = {}
    for part in split_top(rbody[m.end():end]):
        part = part.strip()
        mm = re.fullmatch(r"(\w+)\s*(?::\s*(.+))?", part, re.S)
        if not mm:
            raise Shape("from_config_file: unexpected initialiser " + norm(part)[:80])
        fname, e = mm.group(1), mm.group(2) or mm.group(1)
        if fname not in fields:
            raise Shape("from_config_file: unknown field " + fname)
        readers[fname] = classify_reader(cx, fname, e, fields[fname])
    head = [norm(s) for s in parse_statements(rbody[:m.start()])]
    if head != ["let log_target=Self::log_target_from_config_file(&mut file)?;"]:
        raise Shape("from_config_file prologue changed")
    tail = [norm(strip_logs(s)) for s in parse_statements(rbody[end + 1:])]
    ignored = []
    exhaust = False
    for s in tail:
        if s == ";":
            continue
        mm = re.fullmatch(r'if file\.take_path\("([^"]+)"\)\?\.is_some\(\)\{LOG;\}', s)
        if mm:
            ignored.append(mm.group(1))
        elif s == "file.check_exhausted()?;":
            exhaust = True
        elif s == "Ok(res)":
            pass
        else:
            raise Shape("from_config_file epilogue changed: " + s[:100])
    limits, reader_fps = reader_limits(src)
    # log target reader (unix)
    lr = None
    for mm in re.finditer(r"#\[cfg\((unix|not\(unix\))\)\]\s*(?:#\[[^\]]*\]\s*)*fn\s+log_target_from_config_file", src):
        if mm.group(1) == "unix":
            lr = norm(strip_logs(fn_body(src[mm.start():], "log_target_from_config_file")))
    if lr is None:
        raise Shape("log_target_from_config_file (unix) not found")
    la = None
    for mm in re.finditer(r"#\[cfg\((unix|not\(unix\))\)\]\s*(?:#\[[^\]]*\]\s*)*fn\s+apply_log_matches", src):
        if mm.group(1) == "unix":
            la = norm(strip_logs(fn_body(src[mm.start():], "apply_log_matches")))
    if la is None:
        raise Shape("apply_log_matches (unix) not found")

    # --- printers
    printers, extra_printers, pinfo = parse_to_toml(cx, src, fields)
    if pinfo["insert"] is None or pinfo["insert_int"] is None:
        raise Shape("to_toml helper functions not found")
    tbody = fn_body(src, "to_toml")
    helper_ok = (INSERT_FN in norm(tbody)) and (INSERT_INT_FN in norm(tbody))
    mlog = re.search(r"match\s+self\.log_target\s*\{", tbody)
    log_print_ok = False
    if mlog:
        blk = tbody[mlog.start():match_close(tbody, mlog.end() - 1) + 1]
        log_print_ok = norm(unix_only(blk)) == LOG_PRINT_UNIX

    # --- CLI
    gargs = parse_args_struct(cx, src, "GlobalArgs")
    sargs = parse_args_struct(cx, src, "ServerArgs")
    gset, gspecial = parse_apply(cx, src, "apply_arg_matches", gargs, fields)
    sset, sspecial = parse_apply(cx, src, "apply_server_arg_matches", sargs, fields)

    shapes = {
        "logRead": lr == LOG_READ_UNIX,
        "logPrint": log_print_ok and helper_ok,
        "logCli": la == APPLY_LOG_UNIX and gspecial["logtarget"] and dsf == "Facility::LOG_DAEMON",
        "logLevelCli": gspecial["loglevel"],
        "exhaust": exhaust,
        "defaults": log_default_ok and config_default_ok,
        "readers": reader_fps == EXPECTED_READER_FPS,
    }
    if not helper_ok:
        # every integer printer depends on insert_int's clamping
        for p in printers.values():
            p["codec"] = "unknown"
            p["expr"] = "insert/insert_int helper changed"

    # --- assemble rows
    names = []

    def nid(s):
        if s not in names:
            names.append(s)
        return names.index(s)

    rows = []
    used_args = set()
    for fname, rust in order:
        fty, fsk, funit = fields[fname]
        row = {"field": fname, "rust": rust, "fty": fty,
               "default": defaults.get(fname, {"unknown": "missing"}),
               "reader": readers.get(fname, {"kind": "unknown", "keys": [], "expr": "missing"}),
               "printer": printers.get(fname), "clis": []}
        rd = row["reader"]
        if rd.get("kind") == "file" and rd.get("codec") != "log":
            take = rd.get("take")
            if take in ("u64", "usize", "small_usize"):
                rd["max"] = limits[take]
            elif take == "limited_u8":
                rd["max"] = rd["limit"] - (1 if limits["limited_u8_strict"] else 0)
        if rd.get("keys") == "LOG":
            rd["keys"] = ["log", "syslog-facility", "log-file"]
            if not shapes["logRead"]:
                rd["kind"] = "unknown"
        if fty == "log":
            if shapes["logPrint"] and pinfo.get("log_keys") is not None:
                row["printer"] = {"keys": ["log", "syslog-facility", "log-file"], "codec": "log",
                                  "clamp": False, "unit": "plain", "cond": "always"}
            elif pinfo.get("log") is not None:
                row["printer"] = {"keys": sorted(set(pinfo.get("log_keys") or [])), "codec": "unknown",
                                  "expr": "log target printer changed"}
        for argdefs, setters in ((gargs, gset), (sargs, sset)):
            for s in setters:
                if s["field"] != fname:
                    continue
                ad = argdefs[s["arg"]]
                used_args.add((ad["struct"], s["arg"]))
                c = {"opt": ad["long"], "act": s["act"], "unit": s.get("unit", "plain"),
                     "multi": ad["arity"] in ("append", "count"), "server": ad["struct"] == "ServerArgs",
                     "max": ad.get("max") or 0, "sk": s.get("sk") or {"k": "raw"}}
                if "bad" in ad:
                    c["act"] = "unknown"
                row["clis"].append(c)
        if fty == "log":
            for a, act in (("syslog", "logSyslog"), ("syslog_facility", "logFacility"), ("logfile", "logFile")):
                ad = gargs.get(a)
                ok = ad is not None and shapes["logCli"] and "bad" not in ad and \
                    ((act == "logSyslog" and ad["arity"] == "flag") or
                     (act != "logSyslog" and ad["arity"] == "single" and ad["vt"] == "String"))
                if ad is not None:
                    used_args.add(("GlobalArgs", a))
                    row["clis"].append({"opt": ad["long"], "act": act if ok else "unknown", "unit": "plain",
                                        "multi": False, "server": False, "max": 0, "sk": {"k": "raw"}})
        if fname == "log_level":
            for a, act in (("verbose", "verbose"), ("quiet", "quiet")):
                ad = gargs.get(a)
                if ad is not None:
                    used_args.add(("GlobalArgs", a))
                    ok = shapes["logLevelCli"] and ad["arity"] == "count" and "bad" not in ad
                    row["clis"].append({"opt": ad["long"], "act": act if ok else "unknown", "unit": "plain",
                                        "multi": True, "server": False, "max": 255, "sk": {"k": "raw"}})
        rows.append(row)
    # the config-file option itself and arguments that set nothing
    unused = []
    for argdefs in (gargs, sargs):
        for a, ad in argdefs.items():
            if (ad["struct"], a) not in used_args:
                unused.append(ad["long"])
    conflicts = []
    for argdefs in (gargs, sargs):
        for a, ad in argdefs.items():
            for other in ad["conflicts"]:
                if other in argdefs:
                    conflicts.append((ad["long"], argdefs[other]["long"]))
    return {"rows": rows, "ignored": ignored, "extra_printers": extra_printers,
            "enums": {k: v for k, v in cx.enums.items()}, "types": cx.types,
            "facility_ty": fac_ty, "level_ty": level_ty, "conflicts": conflicts,
            "shapes": shapes, "unused_args": unused, "reader_fps": reader_fps,
            "print_fps": {k: pinfo[k] for k in ("insert", "insert_int", "log")}}


# ---------------------------------------------------------------- emit

def emit(tb):
    names = []

    def nid(s):
        if s not in names:
            names.append(s)
        return names.index(s)

    def sk(d):
        if d is None:
            return ".raw"
        if d["k"] == "parsed":
            return "(.parsed %d)" % d["ty"]
        return "." + d["k"]

    def fval(v):
        if v is None:
            return None
        if "bool" in v:
            return "(.bool %s)" % ("true" if v["bool"] else "false")
        if "nat" in v:
            return "(.nat %d)" % v["nat"]
        if "optNat" in v:
            return "(.optNat %s)" % ("none" if v["optNat"] is None else "(some %d)" % v["optNat"])
        if "str" in v:
            return "(.str %s)" % lean_str(v["str"])
        if "optStr" in v:
            return "(.optStr %s)" % ("none" if v["optStr"] is None else "(some %s)" % lean_str(v["optStr"]))
        if "strs" in v:
            return "(.strs [%s])" % ", ".join(lean_str(s) for s in v["strs"])
        if "optStrs" in v:
            return "(.optStrs none)"
        if "pairs" in v:
            return "(.pairs [])"
        if "log" in v:
            return "(.log .%s %s)" % (v["log"][0], lean_str(v["log"][1]))
        return None

    env_ids = {"config_file": 0, "cache_dir": 1, "validation_threads": 2, "user_agent": 3}

    def dflt(d):
        if d is None:
            return "none"
        if "env" in d:
            if d["env"] not in env_ids:
                return "(some .unknown)"
            return "(some (.env %d))" % env_ids[d["env"]]
        if "lit" in d:
            f = fval(d["lit"])
            return "(some (.lit %s))" % f if f else "(some .unknown)"
        return "(some .unknown)"

    def dflt1(d):
        s = dflt(d)
        return ".unknown" if s == "none" else s[6:-1]

    out = []
    w = out.append
    w("/- GENERATED by extract/config_keys.py from src/config.rs — do not edit. -/")
    w("import RoutinatorModel.Model.Config")
    w("namespace " + NAMESPACE)
    w("open RoutinatorModel.Config")
    w("")
    rows_txt = []
    for r in tb["rows"]:
        f = nid(r["field"])
        p = r["printer"]
        if p is None:
            ptxt = "none"
        else:
            ptxt = "(some { keys := [%s], codec := .%s, unit := .%s, clamp := %s })" % (
                ", ".join(str(nid(k)) for k in p["keys"]), p["codec"],
                p.get("unit", "plain") if p.get("unit") in ("plain", "secs") else "other",
                "true" if p.get("clamp") else "false")
        rd = r["reader"]
        kind = rd["kind"]
        if kind == "file":
            rtxt = ("{ kind := .file, keys := [%s], codec := .%s, unit := .%s, sk := %s, max := %d, "
                    "absent := %s, single := %s }") % (
                ", ".join(str(nid(k)) for k in rd["keys"]), rd["codec"], rd.get("unit", "plain"),
                sk(rd.get("sk")), rd.get("max", 0), dflt(rd.get("absent")),
                "true" if rd.get("single") else "false")
        elif kind == "const":
            rtxt = "{ kind := .const, const := %s }" % dflt1(rd["const"])
        elif kind == "filePath":
            rtxt = "{ kind := .filePath }"
        else:
            rtxt = "{ kind := .unknown, keys := [%s] }" % ", ".join(str(nid(k)) for k in rd.get("keys", []))
        ctxt = []
        for c in r["clis"]:
            ctxt.append("{ opt := %d, act := .%s, max := %d, unit := .%s, sk := %s, multi := %s }" % (
                nid("--" + c["opt"]), c["act"], c["max"], c["unit"], sk(c["sk"]),
                "true" if c["multi"] else "false"))
        rows_txt.append("  -- %s : %s\n  { field := %d, ty := .%s, default := %s,\n    printer := %s,\n    reader := %s,\n    clis := [%s] }" % (
            r["field"], r["rust"], f, r["fty"] if r["fty"] != "unknown" else "unknown", dflt1(r["default"]),
            ptxt, rtxt, ",\n             ".join(ctxt)))
    enums_txt = []
    for ty, name in enumerate(tb["types"]):
        if name not in tb["enums"]:
            continue
        e = tb["enums"][name]
        vids = {}
        for v, _ in e["variants"]:
            vids.setdefault(v, len(vids))
        for _, v in e["parse"]:
            vids.setdefault(v, len(vids))
        enums_txt.append("  -- %s\n  (%d, {\n    ci := %s,\n    variants := [%s],\n    parse := [%s] })" % (
            name, ty, "true" if e["ci"] else "false",
            ", ".join("(%d, %s)" % (vids[v], lean_str(d)) for v, d in e["variants"]),
            ", ".join("(%s, %d)" % (lean_str(l), vids[v]) for l, v in e["parse"])))
    extra = tb["extra_printers"]
    ign = [nid(k) for k in tb["ignored"]]
    extra_keys = [nid(k) for p in extra for k in p["keys"]]
    conflicts = [(nid("--" + a), nid("--" + b)) for a, b in tb["conflicts"]]
    sh = tb["shapes"]
    w("/-- Strings of the table (field names, config-file keys, `--options`), by id. -/")
    # names are complete only after everything above has been interned
    body = []
    body.append("def configTable : Table where")
    body.append("  rows := [\n" + ",\n".join(rows_txt) + "\n  ]")
    body.append("  ignored := [%s]" % ", ".join(str(x) for x in ign))
    body.append("  extraPrinted := [%s]" % ", ".join(str(x) for x in extra_keys))
    body.append("  enums := [\n" + ",\n".join(enums_txt) + "\n  ]")
    body.append("  conflicts := [%s]" % ", ".join("(%d, %d)" % c for c in conflicts))
    body.append("  facilityTy := %d" % tb["facility_ty"])
    body.append("  levelTy := %d" % tb["level_ty"])
    body.append("  exhaust := %s" % ("true" if sh["exhaust"] else "false"))
    body.append("  shapesOk := %s" % ("true" if (sh["defaults"] and sh["readers"]) else "false"))
    w("def configNames : List Str := [")
    w(",\n".join("  /- %d %s -/ %s" % (i, n, lean_str(n)) for i, n in enumerate(names)))
    w("]")
    w("")
    w("/-- Names of the string-parsed Rust types, by type id. -/")
    w("def configTypes : List Str := [%s]" % ", ".join(lean_str(t) for t in tb["types"]))
    w("")
    w("\n".join(body))
    w("")
    w("end " + NAMESPACE)
    return "\n".join(out) + "\n"


EXPECTED_READER_FPS = {
    "take_value": "4faba833ec4be9a7",
    "take_bool": "6a82669fd0d82dfb",
    "take_string": "576641b676ab1227",
    "take_from_str": "c0a8bc9082fca519",
    "take_path": "a40553d98843e2c9",
    "take_mandatory_path": "972b6a5196318d27",
    "take_string_array": "21bca80d4486a84e",
    "take_from_str_array": "097426b2f290c063",
    "take_path_array": "4444e72cbc2ec3dc",
    "take_string_map": "46190a47cd8ddd0d",
    "check_exhausted": "937d8cf443bd7d0f",
}


if __name__ == "__main__":
    if "--fingerprints" in sys.argv:
        raw = open(os.path.join(REPO, "src", "config.rs"), encoding="utf8").read()
        src = strip_comments(raw)
        print(json.dumps(reader_limits(src)[1], indent=1))
        sys.exit(0)
    sys.exit(main())
