#!/usr/bin/env python3
"""Extracts the JSON / Prometheus writing templates from the Rust source.

    extract/templates.py [section ...]   (reads $VERIF_REPO or /repo, writes
                                          lean/RoutinatorModel/Generated/Templates.lean)

Sections: builder (src/utils/json.rs: JsonBuilder statement skeletons, json_str rules),
prom (src/http/metrics.rs: writer format strings, label_str rules, every static metric name /
help text / label name), statusraw (every `member_raw`/`array_raw` call site and the kind
of its argument), delta (src/http/delta.rs), output (src/output.rs JSON and SLURM formats).

String literals are decoded (escapes, `\\`-newline continuations, `{{`/`}}`) and emitted as
lists of code points; format arguments become typed holes (`ArgKind`) according to the
argument *expression* (ARG_KINDS below). All sections are always written; a section whose
source no longer has the expected shape is written as an empty value and reported. The exit
status is 1 iff one of the sections named on the command line (default: all) failed.
"""
import os
import re
import sys

REPO = os.environ.get("VERIF_REPO") or "/repo"
VERIF = os.path.dirname(os.path.dirname(os.path.abspath(__file__)))
OUT = os.path.join(VERIF, "lean", "RoutinatorModel", "Generated", "Templates.lean")


class Shape(Exception):
    pass


def need(cond, what):
    if not cond:
        raise Shape(what)


# ---------------------------------------------------------------------------------------
# A little Rust lexing


def load(rel):
    src = open(os.path.join(REPO, rel), encoding="utf8").read()
    cut = src.find("#[cfg(test)]\nmod test")
    if cut >= 0:
        src = src[:cut]
    return strip_comments(src)


def strip_comments(src):
    out, i, n = [], 0, len(src)
    while i < n:
        c = src[i]
        if c == '"':
            j = skip_string(src, i)
            out.append(src[i:j])
            i = j
        elif c == "'":
            j = skip_char(src, i)
            out.append(src[i:j])
            i = j
        elif src.startswith("//", i):
            j = src.find("\n", i)
            i = n if j < 0 else j
        elif src.startswith("/*", i):
            j = src.find("*/", i)
            i = n if j < 0 else j + 2
        else:
            out.append(c)
            i += 1
    return "".join(out)


def skip_string(src, i):
    """`i` at the opening quote; returns the index after the closing quote."""
    i += 1
    while src[i] != '"':
        i += 2 if src[i] == "\\" else 1
    return i + 1


def skip_char(src, i):
    """`i` at a `'`: a char literal or a lifetime."""
    if src[i + 1] == "\\":
        j = src.find("'", i + 2)
        if src[i + 2] == "'":       # '\''
            j = src.find("'", i + 3)
        return j + 1
    if i + 2 < len(src) and src[i + 2] == "'":
        return i + 3
    m = re.match(r"'[A-Za-z_][A-Za-z0-9_]*", src[i:])   # lifetime
    return i + (len(m.group(0)) if m else 1)


def decode_escapes(body):
    """Decodes the inside of a Rust string / char literal to a Python str."""
    out, i, n = [], 0, len(body)
    while i < n:
        c = body[i]
        if c != "\\":
            out.append(c)
            i += 1
            continue
        e = body[i + 1]
        if e == "\n":                       # line continuation: skip leading whitespace
            i += 2
            while i < n and body[i] in " \t\n\r":
                i += 1
        elif e == "u":
            j = body.index("}", i)
            out.append(chr(int(body[i + 3:j], 16)))
            i = j + 1
        elif e == "x":
            out.append(chr(int(body[i + 2:i + 4], 16)))
            i += 4
        else:
            need(e in 'nrt0\\"\'', "unknown escape \\" + e)
            out.append({"n": "\n", "r": "\r", "t": "\t", "0": "\0", "\\": "\\", '"': '"', "'": "'"}[e])
            i += 2
    return "".join(out)


def literal(expr):
    """A string / byte-string / char literal expression -> str, else None."""
    expr = expr.strip()
    if expr.startswith("b\"") or expr.startswith("b'"):
        expr = expr[1:]
    if len(expr) >= 2 and expr[0] == '"' and skip_string(expr, 0) == len(expr):
        return decode_escapes(expr[1:-1])
    if len(expr) >= 3 and expr[0] == "'" and expr[-1] == "'":
        return decode_escapes(expr[1:-1])
    return None


def match_close(src, i):
    """`i` at an opening bracket; returns the index of the matching closing one."""
    pairs = {"(": ")", "{": "}", "[": "]"}
    stack = [pairs[src[i]]]
    i += 1
    while stack:
        c = src[i]
        if c == '"':
            i = skip_string(src, i)
            continue
        if c == "'":
            i = skip_char(src, i)
            continue
        if c in pairs:
            stack.append(pairs[c])
        elif c in ")}]":
            need(c == stack[-1], "unbalanced brackets")
            stack.pop()
        i += 1
    return i - 1


def fn_body(src, name, after=0, impl=None):
    """The body (without braces) of `fn name` found after position `after`."""
    start = after
    if impl is not None:
        m = re.search(impl, src[after:])
        need(m, "impl block " + impl + " not found")
        start = after + m.start()
    m = re.search(r"\bfn\s+" + re.escape(name) + r"\b", src[start:])
    need(m, "fn " + name + " not found")
    i = start + m.end()
    # skip to the body's opening brace (past generics, arguments, return type)
    depth = 0
    while True:
        c = src[i]
        if c in "(<[":
            depth += 1
        elif c in ")>]":
            if not (c == ">" and src[i - 1] == "-"):
                depth -= 1
        elif c == "{" and depth == 0:
            break
        elif c == "'":
            i = skip_char(src, i)
            continue
        i += 1
    j = match_close(src, i)
    return src[i + 1:j], j


def split_top(src, sep):
    """Splits at top-level occurrences of the single character `sep`."""
    parts, depth, i, start, n = [], 0, 0, 0, len(src)
    while i < n:
        c = src[i]
        if c == '"':
            i = skip_string(src, i)
            continue
        if c == "'":
            i = skip_char(src, i)
            continue
        if c in "({[":
            depth += 1
        elif c in ")}]":
            depth -= 1
        elif c == sep and depth == 0:
            parts.append(src[start:i])
            start = i + 1
        i += 1
    parts.append(src[start:])
    return parts


def statements(body):
    """Top-level statements of a block: `;`-terminated ones and brace blocks."""
    res, i, n, start, depth = [], 0, len(body), 0, 0
    while i < n:
        c = body[i]
        if c == '"':
            i = skip_string(body, i)
            continue
        if c == "'":
            i = skip_char(body, i)
            continue
        if c in "([":
            depth += 1
        elif c in ")]":
            depth -= 1
        elif c == "{" and depth == 0:
            j = match_close(body, i)
            head = body[start:i].strip()
            if re.match(r"(if|for|while|match|else|loop)\b", head):
                # block statement; swallow `else` chains
                k = j + 1
                while True:
                    m = re.match(r"\s*else\b", body[k:])
                    if not m:
                        break
                    b = body.index("{", k)
                    k = match_close(body, b) + 1
                res.append(body[start:k].strip())
                i = start = k
                continue
            i = j + 1
            continue
        elif c == ";" and depth == 0:
            s = body[start:i].strip()
            if s:
                res.append(s)
            start = i + 1
        i += 1
    tail = body[start:].strip()
    if tail:
        res.append(tail)
    return res


def macro_args(stmt, names=("write", "writeln")):
    """`write!(a, b, c)` -> (name, [a, b, c]) or None."""
    m = re.match(r"(" + "|".join(names) + r")!\s*\(", stmt)
    if not m:
        return None
    i = m.end() - 1
    j = match_close(stmt, i)
    args = [a.strip() for a in split_top(stmt[i + 1:j], ",")]
    if args and args[-1] == "":
        args.pop()
    return m.group(1), args, stmt[j + 1:].strip()


def parse_format(fmt):
    """Decoded format string -> [('lit', s) | ('hole', name_or_None, spec)]."""
    res, lit, i, n = [], [], 0, len(fmt)
    while i < n:
        c = fmt[i]
        if c == "{":
            if fmt.startswith("{{", i):
                lit.append("{")
                i += 2
                continue
            j = fmt.index("}", i)
            inner = fmt[i + 1:j]
            name, _, spec = inner.partition(":")
            if lit:
                res.append(("lit", "".join(lit)))
                lit = []
            res.append(("hole", name or None, spec))
            i = j + 1
        elif c == "}":
            need(fmt.startswith("}}", i), "stray } in format string")
            lit.append("}")
            i += 2
        else:
            lit.append(c)
            i += 1
    if lit:
        res.append(("lit", "".join(lit)))
    return res


# ---------------------------------------------------------------------------------------
# Argument classification

ARG_KINDS = [
    (r"json_str\(.*\)$", "jsonStr"),
    (r"label_str\(.*\)$", "labelStr"),
    (r"format_iso_date\(.*\)$", "date"),
    (r"(\w+\.)*asn(\.into_u32\(\))?$|u32::from\(\w+\.asn\)$", None),   # resolved below
    (r"(\w+\.)*prefix\.addr\(\)$", "addr"),
    (r"(\w+\.)*prefix\.prefix_len\(\)$", "nat"),
    (r"(\w+\.)*prefix\.resolved_max_len\(\)$", "nat"),
    (r"max_len$", "nat"),
    (r"(\w+\.)*key_identifier$", "hex"),
    (r"(\w+\.)*key_info$", "base64"),
    (r"(session|serial|to_serial|from_serial)$", "nat"),
    (r"(\w+\.)*timestamp\(\)$", "int"),
    (r"item\.into_u32\(\)$", "nat"),
    (r"uri$", "uri"),
    (r"rpki_type$", "word"),
]


def arg_kind(expr):
    expr = re.sub(r"\s+", "", expr)
    if literal(expr) is not None:
        return "lit"
    if re.match(r"(\w+\.)*(asn|customer)\.into_u32\(\)$|u32::from\((\w+\.)*asn\)$", expr):
        return "nat"
    if re.match(r"(\w+\.)*(asn|customer)$|asn$|item$", expr):
        return "asn"
    for rx, kind in ARG_KINDS:
        if kind and re.match(rx, expr):
            return kind
    return "raw"


def segments(fmt, args, newline=False):
    """Format string + positional argument expressions -> [('lit', s) | ('hole', kind)].
    Inline `{name}` arguments are classified by their name."""
    segs, k = [], 0
    for item in parse_format(fmt):
        if item[0] == "lit":
            segs.append(item)
        else:
            if item[1] is None:
                need(k < len(args), "format string has more holes than arguments")
                segs.append(("hole", arg_kind(args[k])))
                k += 1
            else:
                segs.append(("hole", arg_kind(item[1])))
    need(k == len(args), "format string has fewer holes than arguments")
    if newline:
        if segs and segs[-1][0] == "lit":
            segs[-1] = ("lit", segs[-1][1] + "\n")
        else:
            segs.append(("lit", "\n"))
    return segs


# ---------------------------------------------------------------------------------------
# Lean output


def cps(s):
    return "[" + ", ".join(str(ord(c)) for c in s) + "]"


def lean_segs(segs):
    items = []
    for seg in segs:
        if seg[0] == "lit":
            items.append(".lit " + cps(seg[1]))
        else:
            items.append(".hole ." + seg[1])
    return "[" + ", ".join(items) + "]"


# ---------------------------------------------------------------------------------------
# Section: builder (src/utils/json.rs)

BUILDER_METHODS = [
    "build", "member_object", "member_array", "member_str", "member_raw", "array_object",
    "array_array", "array_str", "array_raw", "append_key", "append_array_head", "append_indent",
]


def builder_op(stmt):
    m = re.match(r"self\.target\.push_str\((.*)\)$", stmt, re.S)
    if m:
        lit = literal(m.group(1))
        need(lit is not None, "push_str of a non-literal")
        return ".lit " + cps(lit)
    m = re.match(r"self\.target\.push\((.*)\)$", stmt, re.S)
    if m:
        lit = literal(m.group(1))
        need(lit is not None, "push of a non-literal")
        return ".lit " + cps(lit)
    m = re.match(r"self\.(\w+)\(", stmt)
    if m:
        return ".call " + cps(m.group(1))
    mac = macro_args(stmt)
    if mac:
        _, args, _ = mac
        need(len(args) == 3 and args[0] == "self.target" and literal(args[1]) == "{}",
             "unexpected write! in JsonBuilder: " + stmt)
        return ".esc" if re.match(r"json_str\(\w+\)$", args[2]) else ".raw"
    if re.match(r"op\(&mut JsonBuilder\s*\{", stmt):
        flat = re.sub(r"\s+", "", stmt)
        need("indent:self.indent+1" in flat and "empty:true" in flat and "target:self.target" in flat,
             "nested builder is not { target, indent + 1, empty: true }")
        return ".scope"
    m = re.match(r"if self\.empty\s*\{\s*self\.empty = false;?\s*\}\s*else\s*\{(.*)\}$", stmt, re.S)
    if m:
        inner = statements(m.group(1))
        need(len(inner) == 1, "else branch of the empty test is not one statement")
        op = builder_op(inner[0])
        need(op.startswith(".lit "), "else branch of the empty test is not a push")
        return ".unlessFirst " + op[5:]
    m = re.match(r"for _ in 0\.\.self\.indent\s*\{(.*)\}$", stmt, re.S)
    if m:
        inner = statements(m.group(1))
        need(len(inner) == 1, "indent loop body is not one statement")
        op = builder_op(inner[0])
        need(op.startswith(".lit "), "indent loop body is not a push")
        return ".perIndent " + op[5:]
    raise Shape("unrecognised JsonBuilder statement: " + stmt[:80])


def sec_builder(w):
    src = load("src/utils/json.rs")
    methods = []
    for name in BUILDER_METHODS:
        body, _ = fn_body(src, name)
        stmts = statements(body)
        if name == "build":
            flat = re.sub(r"\s+", "", body)
            need("JsonBuilder{target:&muttarget,indent:0,empty:true}.array_object(op)" in flat,
                 "build is not array_object on a fresh builder")
            ops = [".call " + cps("array_object")]
        else:
            ops = [builder_op(s) for s in stmts]
        methods.append("(" + cps(name) + ", [" + ", ".join(ops) + "])")
    w("def jsonBuilderSkeleton : List (Text × List BOp) := [\n  " + ",\n  ".join(methods) + "]")
    w("")
    # json_str
    body, _ = fn_body(src, "write_str", impl=r"impl fmt::Write for WriteJsonStr")
    m = re.search(r"s\.find\(\s*\|ch: char\|(.*?)\)\s*\{", body, re.S)
    need(m, "json_str: find predicate not found")
    rules = []
    for term in m.group(1).split("||"):
        t = re.match(r"\s*ch\s*(==|<)\s*('(?:\\.[^']*|[^'])')\s*$", term)
        need(t, "json_str: unexpected term in find predicate: " + term.strip())
        rules.append("(" + ("0" if t.group(1) == "==" else "1") + ", " + str(ord(literal(t.group(2)))) + ")")
    w("/-- The characters `json_str` looks for: (0, c) = equal to c, (1, c) = below c. -/")
    w("def jsonStrFind : List (Nat × Nat) := [" + ", ".join(rules) + "]")
    loop = body[m.end():]
    m = re.search(r"if ch < (0x[0-9a-fA-F]+|\d+)\s*\{", loop)
    need(m, "json_str: control character branch not found")
    b1 = m.end() - 1
    e1 = match_close(loop, b1)
    m3 = re.match(r"\s*else\s*\{", loop[e1 + 1:])
    need(m3, "json_str: control character branch has no else")
    b2 = e1 + 1 + m3.end() - 1
    e2 = match_close(loop, b2)
    ctl = [macro_args(s) for s in statements(loop[b1 + 1:e1])]
    need(len(ctl) == 1 and ctl[0] and len(ctl[0][1]) == 3 and ctl[0][1][2] == "ch",
         "json_str: control branch is not one write!")
    other = statements(loop[b2 + 1:e2])
    need(len(other) == 2, "json_str: escape branch is not two statements")
    m1 = re.match(r"self\.0\.write_str\((.*)\)\?$", other[0])
    need(m1 and literal(m1.group(1)) is not None, "json_str: escape prefix not found")
    m2 = macro_args(other[1])
    need(m2 and literal(m2[1][1]) == "{}" and m2[1][2] == "char::from(ch)",
         "json_str: escaped character is not written back")
    need("s = &s[idx + 1..]" in loop and "self.0.write_str(&s[..idx])" in loop,
         "json_str: loop no longer copies the unescaped part / advances by one")
    w("/-- (threshold of the control branch, its format string, the prefix of the other branch) -/")
    w("def jsonStrEscape : Nat × Text × Text := (" + str(int(m.group(1), 0)) + ", "
      + cps(literal(ctl[0][1][1])) + ", " + cps(literal(m1.group(1))) + ")")
    w("")


# ---------------------------------------------------------------------------------------
# Section: prom (src/http/metrics.rs)


def write_template(body, what):
    mac = [macro_args(s) for s in statements(body)]
    mac = [m for m in mac if m]
    need(len(mac) == 1, what + ": expected exactly one write!")
    name, args, tail = mac[0]
    fmt = literal(args[1])
    need(fmt is not None, what + ": format string is not a literal")
    return segments(fmt, args[2:], newline=(name == "writeln"))


def sec_prom(w):
    src = load("src/http/metrics.rs")
    start = src.index("impl Metric {")
    header, _ = fn_body(src, "header", start)
    single, _ = fn_body(src, "single", start)
    lv = src.index("impl<'a> LabelValue<'a>")
    new, _ = fn_body(src, "new", lv)
    label, _ = fn_body(src, "label", lv)
    value, _ = fn_body(src, "value", lv)
    tmpls = [("header", write_template(header, "Metric::header")),
             ("single", write_template(single, "Metric::single")),
             ("new", write_template(new, "LabelValue::new")),
             ("label", write_template(label, "LabelValue::label")),
             ("value", write_template(value, "LabelValue::value"))]
    m = re.search(r"if self\.first\s*\{\s*self\.first = false;\s*\}\s*else\s*\{\s*self\.target\.buf\.push_str\((.*?)\);\s*\}",
                  label, re.S)
    need(m and literal(m.group(1)) is not None, "LabelValue::label: separator not found")
    tmpls.append(("labelsep", [("lit", literal(m.group(1)))]))
    w("def promTemplates : List (Text × List Seg) := [\n  " + ",\n  ".join(
        "(" + cps(n) + ", " + lean_segs(s) + ")" for n, s in tmpls) + "]")
    w("")
    # label_str
    rules = []
    if re.search(r"\bfn\s+label_str\b", src):
        body, _ = fn_body(src, "write_str", impl=r"impl fmt::Write for WriteLabelStr")
        m = re.search(r"match ch\s*\{(.*?)\n\s*\}\s*\}", body, re.S)
        need(m, "label_str: match not found")
        for arm in split_top(m.group(1), ","):
            arm = arm.strip()
            if not arm:
                continue
            t = re.match(r"('(?:\\.[^']*|[^'])')\s*=>\s*self\.0\.write_str\((.*)\)\?$", arm, re.S)
            if t:
                rules.append("(" + str(ord(literal(t.group(1)))) + ", " + cps(literal(t.group(2))) + ")")
            else:
                need(re.match(r"_\s*=>\s*self\.0\.write_char\(ch\)\?$", arm),
                     "label_str: unexpected match arm " + arm)
    w("/-- `label_str`: character -> replacement (empty when the source has no label escaping). -/")
    w("def labelStrRules : List (Nat × Text) := [" + ", ".join(rules) + "]")
    w("")
    # static strings: kind 0 metric name part, 1 help text part, 2 label name, 3 sample value literal
    static = []
    for m in re.finditer(r"Metric::new\(", src):
        j = match_close(src, m.end() - 1)
        args = [a.strip() for a in split_top(src[m.end():j], ",")]
        if literal(args[0]) is None:
            continue          # the definition of `new` itself
        need(literal(args[1]) is not None, "Metric::new with a non-literal help text")
        static.append((0, "_" + literal(args[0])))
        static.append((1, literal(args[1])))
    for m in re.finditer(r"Metric::with_prefix\(", src):
        j = match_close(src, m.end() - 1)
        args = [a.strip() for a in split_top(src[m.end():j], ",")]
        if args[0] != "group.prefix()":
            continue
        need(literal(args[1]) is not None, "Metric::with_prefix with a non-literal name")
        static.append((0, "_" + literal(args[1])))
        help_args = [a.strip() for a in split_top(args[2].strip()[1:-1], ",")]
        need(literal(help_args[0]) is not None and help_args[1] == "group.help()",
             "Metric::with_prefix: unexpected help tuple")
        static.append((1, literal(help_args[0])))
    grp = src.index("impl Group {")
    for fn, kind in (("prefix", 0), ("help", 1), ("label", 2)):
        body, _ = fn_body(src, fn, grp)
        lits = re.findall(r"=>\s*(\"(?:[^\"\\]|\\.)*\")", body)
        need(len(lits) == 2, "Group::" + fn + ": expected two literals")
        for lit in lits:
            static.append((kind, literal(lit)))
    for m in re.finditer(r"\.label\(", src):
        j = match_close(src, m.end() - 1)
        args = [a.strip() for a in split_top(src[m.end():j], ",")]
        if args == [""]:
            continue          # `group.label()`
        lit = literal(args[0])
        if lit is not None:
            static.append((2, lit))
        else:
            need(args[0] == "group.label()", "label with an unexpected name expression " + args[0])
    for m in re.finditer(r"(?:\.value|target\.single)\(", src):
        j = match_close(src, m.end() - 1)
        args = [a.strip() for a in split_top(src[m.end():j], ",")]
        lit = literal(args[-1])
        if lit is not None:
            static.append((3, lit))
    body, _ = fn_body(src, "fmt", impl=r"impl fmt::Display for MetricType")
    for lit in re.findall(r"=>\s*(\"(?:[^\"\\]|\\.)*\")", body):
        static.append((4, literal(lit)))
    seen, uniq = set(), []
    for item in static:
        if item not in seen:
            seen.add(item)
            uniq.append(item)
    w("/-- Every static string of the metrics writer: (0, metric name part), (1, help text part),")
    w("(2, label name), (3, literal sample value), (4, metric type). -/")
    w("def promStatic : List (Nat × Text) := [\n  " + ",\n  ".join(
        "(" + str(k) + ", " + cps(s) + ")" for k, s in uniq) + "]")
    w("")


# ---------------------------------------------------------------------------------------
# Section: statusraw (raw values passed to the builder)

RAW_FILES = ["src/http/status.rs", "src/http/delta.rs", "src/http/response.rs",
             "src/collector/rrdp/base.rs", "src/store.rs"]


def raw_kind(expr):
    """0 literal null/true/false (or a choice of them), 1 fixed-point `{:.3}`, 2 an expression
    without string literals (assumed to be an integer; checked dynamically), 9 anything else."""
    flat = re.sub(r"\s+", " ", expr.strip())
    lit = literal(flat)
    if lit is not None:
        return 0 if lit in ("null", "true", "false") else 9
    m = re.match(r"if .*\{\s*(\"\w+\")\s*\}\s*else\s*\{\s*(\"\w+\")\s*\}$", flat)
    if m:
        return 0 if literal(m.group(1)) in ("true", "false", "null") and \
            literal(m.group(2)) in ("true", "false", "null") else 9
    m = re.match(r"format_args!\(\s*\"\{:\.3\}\"\s*,\s*[\w.]+\.as_secs_f32\(\)\s*\)$", flat)
    if m:
        return 1
    if '"' in flat or "'" in flat or "format" in flat:
        return 9
    return 2


def sec_statusraw(w):
    items = []
    for rel in RAW_FILES:
        src = load(rel)
        for m in re.finditer(r"\.(member_raw|array_raw)\(", src):
            j = match_close(src, m.end() - 1)
            args = [a.strip() for a in split_top(src[m.end():j], ",")]
            if args and args[-1] == "":
                args.pop()
            expr = args[-1]
            key = literal(args[0]) if m.group(1) == "member_raw" else ""
            items.append((rel, key if key is not None else "?", raw_kind(expr), re.sub(r"\s+", " ", expr)))
    need(len(items) >= 60, "fewer raw call sites than expected")
    w("/-- Every `member_raw` / `array_raw` call site outside `json.rs`: (key, kind of the value")
    w("expression): 0 literal null/true/false, 1 `{:.3}` of a float, 2 expression without string")
    w("literals, 9 anything else. -/")
    w("def statusRawArgs : List (Text × Nat) := [")
    for idx, (rel, key, kind, expr) in enumerate(items):
        w("  (" + cps(key) + ", " + str(kind) + ")" + ("," if idx + 1 < len(items) else "")
          + "   -- " + rel.split("/")[-1] + ": " + expr[:70].replace("\n", " "))
    w("]")
    w("")


# ---------------------------------------------------------------------------------------
# Section: delta (src/http/delta.rs)


def all_writes(body):
    """Every write!/writeln! in a block, in source order, nested blocks included:
    [(segments)]."""
    res = []
    for m in re.finditer(r"\b(write|writeln)!\s*\(", body):
        i = m.end() - 1
        j = match_close(body, i)
        args = [a.strip() for a in split_top(body[i + 1:j], ",")]
        if args and args[-1] == "":
            args.pop()
        fmt = literal(args[1])
        need(fmt is not None, "write! with a non-literal format string")
        res.append(segments(fmt, args[2:], newline=(m.group(1) == "writeln")))
    return res


def match_arm(body, pattern):
    """The block of the match arm whose pattern starts with `pattern`."""
    m = re.search(re.escape(pattern) + r"[^=]*=>\s*\{", body)
    need(m, "match arm " + pattern + " not found")
    i = m.end() - 1
    j = match_close(body, i)
    return body[i + 1:j]


def threshold(body, what):
    m = re.search(r"if (?:vec|res)\.len\(\)\s*(>=|>)\s*(\d+)\s*\{\s*return Some\((?:vec|res)\.into\(\)\)", body)
    need(m, what + ": chunk size test not found")
    return (0 if m.group(1) == ">" else 1, int(m.group(2)))


def sec_delta(w):
    src = load("src/http/delta.rs")
    ds = src.index("impl DeltaStream {")
    tm = []
    body, _ = fn_body(src, "append_header", ds)
    wr = all_writes(body)
    need(len(wr) == 1, "DeltaStream::append_header: expected one write!")
    tm.append(("delta_header", wr[0]))
    body, _ = fn_body(src, "append_separator", ds)
    wr = all_writes(body)
    need(len(wr) == 1, "append_separator: expected one write!")
    tm.append(("delta_separator", wr[0]))
    body, _ = fn_body(src, "append_payload", ds)
    m = re.search(r"if !first\s*\{\s*vec\.push\((b?'.')\)\s*\}", body)
    need(m, "append_payload: comma before non-first items not found")
    tm.append(("item_comma", [("lit", literal(m.group(1)))]))
    need(body.index("if !first") < body.index("match payload"), "append_payload: comma after the item")
    wr = all_writes(match_arm(body, "PayloadRef::Origin"))
    need(len(wr) == 1, "append_payload: origin arm is not one write!")
    tm.append(("item_origin", wr[0]))
    wr = all_writes(match_arm(body, "PayloadRef::RouterKey"))
    need(len(wr) == 1, "append_payload: router key arm is not one write!")
    tm.append(("item_router_key", wr[0]))
    arm = match_arm(body, "PayloadRef::Aspa")
    wr = all_writes(arm)
    need(len(wr) == 4, "append_payload: ASPA arm is not head / first / next / tail")
    flat = re.sub(r"\s+", " ", arm)
    need(re.search(r"let mut first = true; for asn in aspa\.providers\.iter\(\) \{ if first \{ write!.*?; first = false \} else \{ write!", flat),
         "append_payload: provider loop has an unexpected shape")
    for name, segs in zip(("item_aspa_head", "item_aspa_first", "item_aspa_next", "item_aspa_tail"), wr):
        tm.append((name, segs))
    body, _ = fn_body(src, "append_footer", ds)
    m = re.search(r"vec\.extend_from_slice\((b\"(?:[^\"\\]|\\.)*\")\)", body)
    need(m, "append_footer: literal not found")
    tm.append(("delta_footer", [("lit", literal(m.group(1)))]))
    ss = src.index("impl SnapshotStream {")
    body, _ = fn_body(src, "append_header", ss)
    wr = all_writes(body)
    need(len(wr) == 1, "SnapshotStream::append_header: expected one write!")
    tm.append(("snapshot_header", wr[0]))
    w("def deltaTemplates : List (Text × List Seg) := [\n  " + ",\n  ".join(
        "(" + cps(n) + ", " + lean_segs(sg) + ")" for n, sg in tm) + "]")
    w("")
    # control flow of the two iterators
    body, _ = fn_body(src, "next", impl=r"impl Iterator for DeltaStream")
    dth = threshold(body, "DeltaStream::next")
    flat = re.sub(r"\s+", " ", body)
    need(re.search(r"if self\.withdraw\.is_none\(\) \{ return None \} let mut vec = self\.header\.take\(\)\.unwrap_or_default\(\); "
                   r"loop \{ if vec\.len\(\) > \d+ \{ return Some\(vec\.into\(\)\) \} if self\.next_announce\(&mut vec\) \{ continue; \} "
                   r"if !self\.next_withdraw\(&mut vec\) \{ return Some\(vec\.into\(\)\) \} \}", flat),
         "DeltaStream::next has an unexpected shape")
    ann, _ = fn_body(src, "next_announce", ds + 1)
    flat = re.sub(r"\s+", " ", ann)
    need(re.search(r"if matches!\(action, Action::Announce\) \{ Self::append_payload\(vec, payload, self\.first\); self\.first = false; return true \}", flat)
         and re.search(r"else \{ return false; \} Self::append_separator\(vec\); self\.announce = None; self\.first = true; true$", flat.strip()),
         "next_announce has an unexpected shape")
    wd, _ = fn_body(src, "next_withdraw", ds + 1)
    flat = re.sub(r"\s+", " ", wd)
    need(re.search(r"if matches!\(action, Action::Withdraw\) \{ Self::append_payload\(vec, payload, self\.first\); self\.first = false; return true \}", flat)
         and re.search(r"else \{ return false; \} Self::append_footer\(vec\); self\.withdraw = None; false$", flat.strip()),
         "next_withdraw has an unexpected shape")
    body, _ = fn_body(src, "next", impl=r"impl Iterator for SnapshotStream")
    sth = threshold(body, "SnapshotStream::next")
    flat = re.sub(r"\s+", " ", body)
    need(re.search(r"let mut first = self\.header\.is_some\(\); let mut vec = self\.header\.take\(\)\.unwrap_or_default\(\); loop \{ "
                   r"if vec\.len\(\) > \d+ \{ return Some\(vec\.into\(\)\) \} match iter\.next\(\) \{ Some\(payload\) => \{ "
                   r"DeltaStream::append_payload\( &mut vec, payload, first, \); \} None => \{ break \} \} first = false; \} "
                   r"self\.iter = None; DeltaStream::append_footer\(&mut vec\); Some\(vec\.into\(\)\)", flat),
         "SnapshotStream::next has an unexpected shape")
    w("/-- (0 = `>` / 1 = `>=`, chunk size) of `DeltaStream::next` and `SnapshotStream::next`; the loops")
    w("themselves are asserted by the extractor to have the modelled shape. -/")
    w("def streamThresholds : List (Nat × Nat) := [(" + str(dth[0]) + ", " + str(dth[1]) + "), ("
      + str(sth[0]) + ", " + str(sth[1]) + ")]")
    w("")


# ---------------------------------------------------------------------------------------
# Section: output (src/output.rs, the four JSON formats)


def block_segments(body, what):
    """All output statements of a block in source order as one segment list: write!/writeln!
    and `base64::Slurm.write_encoded_slice(..)` (a base64 hole). Control flow inside the block
    is not allowed (callers split such blocks themselves)."""
    segs = []
    for stmt in statements(body):
        stmt = stmt.rstrip("?").strip()
        mac = macro_args(stmt)
        if mac:
            name, args, tail = mac
            fmt = literal(args[1])
            need(fmt is not None, what + ": non-literal format string")
            segs.extend(segments(fmt, args[2:], newline=(name == "writeln")))
        elif re.match(r"base64::Slurm\.write_encoded_slice\(", stmt):
            segs.append(("hole", "base64"))
        elif re.match(r"Ok\(StreamState::\w+\)$", stmt) or stmt.startswith("let mut first = true"):
            continue
        elif re.match(r"Self::payload_info\(info, \"\w+\", target\)$", stmt):
            segs.append(("hole", "elems"))
        else:
            raise Shape(what + ": unexpected statement " + stmt[:60])
    # merge adjacent literals
    out = []
    for seg in segs:
        if seg[0] == "lit" and out and out[-1][0] == "lit":
            out[-1] = ("lit", out[-1][1] + seg[1])
        else:
            out.append(seg)
    return out


def next_state(body):
    """`Ok(StreamState::X)` results of a before_*/after_* hook: either one state or
    (state if flag, state otherwise)."""
    flat = re.sub(r"\s+", " ", body)
    m = re.search(r"match \w+ \{ true => Ok\(StreamState::(\w+)\), false => Ok\(StreamState::(\w+)\),? \}", flat)
    if m:
        return (m.group(1), m.group(2))
    m = re.search(r"if \w+ \{ .*?Ok\(StreamState::(\w+)\) \} else \{ Ok\(StreamState::(\w+)\) \}", flat)
    if m:
        return (m.group(1), m.group(2))
    states = re.findall(r"Ok\(StreamState::(\w+)\)", flat)
    need(len(states) == 1, "hook with an unexpected result: " + flat[:80])
    return (states[0], states[0])


def split_if_flag(body):
    """For `if flag { A; Ok(X) } else { Ok(Y) }` returns A, else the body."""
    m = re.match(r"\s*if \w+\s*\{", body)
    if not m:
        return body
    i = m.end() - 1
    j = match_close(body, i)
    return body[i + 1:j]


def provider_loop(body, what):
    """head; let mut first = true; for item in aspa.providers.iter() { if first { A; first = false; }
    else { B } }; tail -> (head, first, next, tail) blocks."""
    m = re.search(r"let mut first = true;\s*for \w+ in aspa\.providers\.iter\(\)\s*\{", body)
    need(m, what + ": provider loop not found")
    head = body[:m.start()]
    i = m.end() - 1
    j = match_close(body, i)
    loop = body[i + 1:j]
    tail = body[j + 1:]
    m2 = re.match(r"\s*if first\s*\{", loop)
    need(m2, what + ": provider loop is not if first {..} else {..}")
    a = m2.end() - 1
    b = match_close(loop, a)
    m3 = re.match(r"\s*else\s*\{", loop[b + 1:])
    need(m3, what + ": provider loop has no else")
    c = b + 1 + m3.end() - 1
    d = match_close(loop, c)
    first = re.sub(r"first = false;?", "", loop[a + 1:b])
    return head, first, loop[c + 1:d], tail


HOOKS = ["header", "before_origins", "origin", "origin_delimiter", "after_origins",
         "before_router_keys", "router_key", "router_key_delimiter", "after_router_keys",
         "before_aspas", "aspa", "aspa_delimiter", "after_aspas", "footer"]
STATES = ["Header", "OriginBefore", "Origin", "OriginAfter", "KeyBefore", "Key", "KeyAfter",
          "AspaBefore", "Aspa", "AspaAfter", "Done"]
FORMATTERS = ["Csv", "CompatCsv", "ExtendedCsv", "Json", "ExtendedJson", "Slurm", "Slurm2",
              "Openbgpd", "Bird1", "Bird2", "Rpsl", "Summary", "NoOutput"]
DEFAULT_NEXT = {"header": "OriginBefore", "before_origins": "Origin", "after_origins": "KeyBefore",
                "before_router_keys": "Key", "after_router_keys": "AspaBefore",
                "before_aspas": "Aspa", "after_aspas": "Done"}


def impl_block(src, name):
    m = re.search(r"impl<W: io::Write> Formatter<W> for " + name + r"\s*\{", src)
    need(m, "impl Formatter for " + name + " not found")
    i = m.end() - 1
    j = match_close(src, i)
    return src[i + 1:j]


def has_fn(block, fn):
    return re.search(r"\bfn\s+" + fn + r"\b", block) is not None


def sec_output(w):
    src = load("src/output.rs")
    # the defaults of the trait
    tr = src.index("trait Formatter<W>")
    for hook, nxt in DEFAULT_NEXT.items():
        body, _ = fn_body(src, hook, tr)
        need(next_state(body) == (nxt, nxt), "trait default of " + hook + " changed")
    # control flow of all 13 formatters: (next if flag, next otherwise) per hook, and which
    # item hooks they implement with output
    flows = []
    for name in FORMATTERS:
        block = impl_block(src, name)
        row = []
        for hook in ("header", "before_origins", "after_origins", "before_router_keys",
                     "after_router_keys", "before_aspas", "after_aspas"):
            if has_fn(block, hook):
                body, _ = fn_body(block, hook)
                a, b = next_state(body)
            else:
                a = b = DEFAULT_NEXT[hook]
            row.append(str(STATES.index(a)))
            row.append(str(STATES.index(b)))
        for hook in ("origin", "router_key", "aspa"):
            writes = False
            if has_fn(block, hook):
                body, _ = fn_body(block, hook)
                writes = "write" in body
            row.append("1" if writes else "0")
        flows.append("(" + cps(name) + ", [" + ", ".join(row) + "])")
    w("/-- Per formatter: (state after the hook if the type is enabled, otherwise) for header,")
    w("before/after origins, before/after router keys, before/after ASPAs; then whether `origin`,")
    w("`router_key`, `aspa` write anything. States are numbered in the order of `StreamState`. -/")
    w("def outputFlows : List (Text × List Nat) := [\n  " + ",\n  ".join(flows) + "]")
    w("")
    # the stream loop
    body, _ = fn_body(src, "write_next", src.index("impl<Target: io::Write> OutputStream<Target>"))
    flat = re.sub(r"\s+", " ", body)
    for st, inc, delim, item in (("Origin", "include_origin(origin)", "origin_delimiter", "origin(origin, info, target)"),
                                 ("Key", "include_router_key(key)", "router_key_delimiter", "router_key(key, info, target)"),
                                 ("Aspa", "include_aspa(aspa)", "aspa_delimiter", "aspa(aspa, info, target)")):
        need(re.search(r"if !self\.output\." + re.escape(inc) + r" \{ continue \} if first \{ first = false; \} else \{ self\.formatter\."
                       + delim + r"\(target\)\?; \} self\.formatter\." + re.escape(item) + r"\?; \} StreamState::" + st + "After", flat),
             "write_next: the " + st + " loop has an unexpected shape")
    need("if matches!(next, StreamState::Done) { self.formatter.footer( self.metrics.as_ref(), target )?; } self.state = next; Ok(true)" in flat,
         "write_next: footer / state update has an unexpected shape")
    need("self.formatter.before_origins(target, self.output.route_origins)?" in flat
         and "self.formatter.before_router_keys(target, self.output.router_keys)?" in flat
         and "self.formatter.before_aspas(target, self.output.aspas)?" in flat,
         "write_next: before_* hooks are not given the type flags")
    # selection
    sel, _ = fn_body(src, "include_origin", src.index("impl SelectResource {"))
    flat = re.sub(r"\s+", " ", sel)
    need("SelectResource::Asn(asn) => origin.asn == asn" in flat
         and "origin.prefix.prefix().covers(prefix) || (more_specifics && prefix.covers(origin.prefix.prefix()))" in flat,
         "SelectResource::include_origin changed")
    sel, _ = fn_body(src, "include_router_key", src.index("impl SelectResource {"))
    need(re.search(r"match self \{ SelectResource::Asn\(asn\) => key\.asn == asn, _ => false,? \}", re.sub(r"\s+", " ", sel)),
         "include_router_key changed")
    sel, _ = fn_body(src, "include_aspa", src.index("impl SelectResource {"))
    need(re.search(r"match self \{ SelectResource::Asn\(asn\) => aspa\.customer == asn, _ => false,? \}", re.sub(r"\s+", " ", sel)),
         "include_aspa changed")
    w("/-- The selection predicates and the item loops of `write_next` have the modelled shape")
    w("(asserted by the extractor). -/")
    w("def outputLoopsOk : Bool := true")
    w("")
    # templates of the JSON formats
    tm = []
    for name in ("Json", "ExtendedJson", "Slurm", "Slurm2"):
        block = impl_block(src, name)
        for hook in HOOKS:
            if not has_fn(block, hook):
                continue
            body, _ = fn_body(block, hook)
            key = name + "." + hook
            if hook.startswith("before_") and re.match(r"\s*if \w+\s*\{", body):
                tm.append((key, block_segments(split_if_flag(body), key)))
            elif hook.startswith("before_"):
                # Slurm: text first, then the flag decides the next state
                cut = body.find("match ")
                tm.append((key, block_segments(body[:cut] if cut >= 0 else body, key)))
            elif hook == "aspa":
                head, first, nxt, tail = provider_loop(body, key)
                tm.append((key + ".head", block_segments(head, key)))
                tm.append((key + ".first", block_segments(first, key)))
                tm.append((key + ".next", block_segments(nxt, key)))
                tm.append((key + ".tail", block_segments(tail, key)))
            elif hook == "origin" and name in ("Slurm", "Slurm2"):
                m = re.search(r"if let Some\(max_len\) = origin\.prefix\.max_len\(\)\s*\{", body)
                need(m, key + ": optional maxPrefixLength not found")
                i = m.end() - 1
                j = match_close(body, i)
                tm.append((key + ".head", block_segments(body[:m.start()], key)))
                tm.append((key + ".maxlen", block_segments(body[i + 1:j], key)))
                tm.append((key + ".tail", block_segments(body[j + 1:], key)))
            else:
                tm.append((key, block_segments(body, key)))
    # ExtendedJson::payload_info
    pi = src.index("impl ExtendedJson {")
    body, _ = fn_body(src, "payload_info", pi)
    flat = re.sub(r"\s+", " ", body)
    need(flat.count('if !first { write!(target, ", ")?; } else { first = false; }') == 2
         and "for item in info {" in flat, "payload_info: separator logic changed")
    m = re.search(r"if let Some\(roa\) = item\.publish_info\(\)\s*\{", body)
    need(m, "payload_info: publish branch not found")
    i = m.end() - 1
    j = match_close(body, i)
    pub = body[i + 1:j]
    pw = all_writes(pub)
    need(len(pw) == 5, "payload_info: publish branch is not sep / head / uri / null / rest")
    tm.append(("ExtendedJson.info.sep", pw[0]))
    tm.append(("ExtendedJson.info.pub.head", pw[1]))
    tm.append(("ExtendedJson.info.pub.uri", pw[2]))
    tm.append(("ExtendedJson.info.pub.nouri", pw[3]))
    tm.append(("ExtendedJson.info.pub.rest", pw[4]))
    m = re.search(r"if let Some\(exc\) = item\.exception_info\(\)\s*\{", body)
    need(m, "payload_info: exception branch not found")
    i = m.end() - 1
    j = match_close(body, i)
    ew = all_writes(body[i + 1:j])
    need(len(ew) == 6, "payload_info: exception branch is not sep / head / path / null / comment / tail")
    for key, segs in zip(("head", "path", "nopath", "comment", "tail"), ew[1:]):
        tm.append(("ExtendedJson.info.exc." + key, segs))
    kinds = sorted(set(re.findall(r"Self::payload_info\(info, (\"\w+\"), target\)", src)))
    tm.append(("ExtendedJson.info.kinds", [("lit", " ".join(literal(k) for k in kinds))]))
    w("def outputTemplates : List (Text × List Seg) := [\n  " + ",\n  ".join(
        "(" + cps(n) + ", " + lean_segs(sg) + ")" for n, sg in tm) + "]")
    w("")


SECTIONS = [
    ("builder", sec_builder, ["jsonBuilderSkeleton : List (Text × List BOp) := []",
                              "jsonStrFind : List (Nat × Nat) := []",
                              "jsonStrEscape : Nat × Text × Text := (0, [], [])"]),
    ("prom", sec_prom, ["promTemplates : List (Text × List Seg) := []",
                        "labelStrRules : List (Nat × Text) := []",
                        "promStatic : List (Nat × Text) := [(9, [])]"]),
    ("statusraw", sec_statusraw, ["statusRawArgs : List (Text × Nat) := [([], 9)]"]),
    ("delta", sec_delta, ["deltaTemplates : List (Text × List Seg) := []",
                          "streamThresholds : List (Nat × Nat) := []"]),
    ("output", sec_output, ["outputFlows : List (Text × List Nat) := []",
                            "outputLoopsOk : Bool := false",
                            "outputTemplates : List (Text × List Seg) := []"]),
]


def main():
    wanted = sys.argv[1:] or [name for name, _, _ in SECTIONS]
    out = []
    out.append("import RoutinatorModel.Model.Template")
    out.append("/-! GENERATED by extract/templates.py from the routinator source — do not edit. -/")
    out.append("namespace RoutinatorModel.Generated")
    out.append("open RoutinatorModel.Json (Text Seg BOp ArgKind)")
    out.append("")
    failed = []
    for name, fn, fallback in SECTIONS:
        buf = []
        try:
            fn(buf.append)
        except (Shape, ValueError, IndexError, KeyError) as err:
            failed.append((name, str(err)))
            buf = ["/-- extraction failed: " + str(err).replace("-/", "- /") + " -/" if i == 0 else ""
                   for i in range(1)]
            buf = []
            for line in fallback:
                buf.append("def " + line)
            buf.append("")
        out.extend(buf)
    out.append("end RoutinatorModel.Generated")
    text = "\n".join(out) + "\n"
    old = open(OUT, encoding="utf8").read() if os.path.exists(OUT) else None
    if old != text:
        os.makedirs(os.path.dirname(OUT), exist_ok=True)
        open(OUT, "w", encoding="utf8").write(text)
    for name, err in failed:
        print("section " + name + ": source shape changed: " + err)
    bad = [name for name, _ in failed if name in wanted]
    print("templates.py: wrote " + os.path.relpath(OUT, VERIF) + (" (unchanged)" if old == text else "")
          + "; failed sections: " + (", ".join(n for n, _ in failed) or "none"))
    return 1 if bad else 0


if __name__ == "__main__":
    sys.exit(main())
