#!/usr/bin/env python3
"""C22: regenerates Generated/Templates.lean; fails iff the JsonBuilder / json_str /
Prometheus writer / raw-argument sections could not be extracted."""
import os
import sys

sys.path.insert(0, os.path.dirname(os.path.abspath(__file__)))
import templates

sys.argv = [sys.argv[0], "builder", "prom", "statusraw"]
sys.exit(templates.main())
