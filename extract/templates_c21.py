#!/usr/bin/env python3
"""C21: regenerates Generated/Templates.lean; fails iff the output.rs section could not be
extracted."""
import os
import sys

sys.path.insert(0, os.path.dirname(os.path.abspath(__file__)))
import templates

sys.argv = [sys.argv[0], "output"]
sys.exit(templates.main())
