#!/usr/bin/env python3
"""C18: regenerates Generated/Templates.lean; fails iff the delta.rs section could not be
extracted."""
import os
import sys

sys.path.insert(0, os.path.dirname(os.path.abspath(__file__)))
import templates

sys.argv = [sys.argv[0], "delta"]
sys.exit(templates.main())
