#!/usr/bin/env python3
"""Extracts the persisted-record layouts and codec constants from the Rust source.

    extract/layouts.py            (reads $VERIF_REPO or /repo, writes
                                   lean/RoutinatorModel/Generated/RecordLayouts.lean)

For every record type (StoredPointHeader, StoredManifest, StoredObject, StoredStatus,
RepositoryState) two item lists are produced: what `write`/`compose` emits and what
`read`/`parse` consumes, each in *source order*, with the field's type taken from the struct
definition. From binio.rs / store.rs the option markers, enum tags and the pre-allocation policy
are taken (`Params`). Structural facts the Lean model hard-codes (length-prefix widths, byte
order, array sizes) are *asserted*: if the source no longer has the expected shape the script
fails loudly (exit 1), which `./check` reports as a broken obligation.
"""
import os
import re
import sys

REPO = os.environ.get("VERIF_REPO") or "/repo"
VERIF = os.path.dirname(os.path.dirname(os.path.abspath(__file__)))
OUT = os.path.join(VERIF, "lean", "RoutinatorModel", "Generated", "RecordLayouts.lean")


class Shape(Exception):
    pass


def need(cond, what):
    if not cond:
        raise Shape(what)


def load(rel):
    src = open(os.path.join(REPO, rel), encoding="utf8").read()
    # drop the test module and all line comments
    cut = src.find("#[cfg(test)]\nmod test")
    if cut >= 0:
        src = src[:cut]
    src = re.sub(r"//[^\n]*", "", src)
    return src


def block_at(src, start):
    """Returns the text of the brace block whose `{` is the first one at or after `start`."""
    i = src.index("{", start)
    depth = 0
    for j in range(i, len(src)):
        if src[j] == "{":
            depth += 1
        elif src[j] == "}":
            depth -= 1
            if depth == 0:
                return src[i + 1:j]
    raise Shape("unbalanced braces")


def find_block(src, header_re, what):
    m = re.search(header_re, src)
    need(m, f"cannot find {what}")
    return block_at(src, m.end() - 1 if src[m.end() - 1] == "{" else m.end())


def fn_body(impl_src, name, what):
    m = re.search(r"\bfn\s+" + name + r"\s*(<[^>]*>)?\s*\(", impl_src)
    need(m, f"cannot find fn {name} in {what}")
    return block_at(impl_src, m.end())


TYPE_MAP = {
    "u8": "u8", "u32": "u32", "u64": "u64", "i64": "i64", "Option<i64>": "optI64",
    "uri::Rsync": "rsync", "uri::Https": "https", "Option<uri::Https>": "optHttps",
    "Bytes": "bytes", "Option<Bytes>": "optBytes", "Uuid": "uuid", "rrdp::Hash": "hash",
    "Serial": "serial", "Time": "time", "Option<Time>": "optTime",
    "HashMap<u64,rrdp::Hash>": "mapU64Hash", "UpdateStatus": "updStatus",
    "Option<ManifestHash>": "optMftHash",
}


def struct_fields(src, name):
    body = find_block(src, r"\bstruct\s+" + name + r"\s*\{", f"struct {name}")
    fields = {}
    for m in re.finditer(r"(?:pub\s+)?(\w+)\s*:\s*([^,\n<]+(?:<[^>]*>)?)\s*,", body):
        ty = re.sub(r"\s+", "", m.group(2))
        need(ty in TYPE_MAP, f"struct {name}: field {m.group(1)} has unsupported type {ty}")
        fields[m.group(1)] = TYPE_MAP[ty]
    need(fields, f"struct {name} has no fields")
    return fields


def const_u8(tok, what):
    m = re.fullmatch(r"(\d+)(?:u8)?", tok.strip())
    need(m, f"{what}: cannot read octet constant {tok!r}")
    return int(m.group(1))


def impl_of(src, name):
    """Concatenation of all inherent `impl Name { … }` blocks."""
    res = []
    for m in re.finditer(r"\bimpl\s+" + name + r"\s*\{", src):
        res.append(block_at(src, m.end() - 1))
    need(res, f"cannot find impl {name}")
    return "\n".join(res)


def version_of(impl_src, what):
    m = re.search(r"const\s+VERSION\s*:\s*u8\s*=\s*(\d+)\s*;", impl_src)
    need(m, f"{what}: VERSION constant not found")
    return int(m.group(1))


def simple_write(body, fields, version, what):
    """Sequence of `Self::VERSION.compose(w)?;` / `self.f.compose(w)?;` / `self.f.write(w)?;`."""
    items = []
    for m in re.finditer(r"(Self::VERSION|self\.(\w+))\s*\.\s*(compose|write)\s*\(\s*\w+\s*\)\s*\?", body):
        if m.group(1) == "Self::VERSION":
            need(version is not None, f"{what}: VERSION written but not defined")
            items.append(("const", version))
        else:
            f = m.group(2)
            need(f in fields, f"{what}: writes unknown field {f}")
            if m.group(3) == "write":
                need(fields[f] == "updStatus", f"{what}: .write() on non-UpdateStatus field {f}")
            items.append(("field", f, fields[f]))
    need(items, f"{what}: no write statements found")
    return items


def simple_read(body, fields, version, what):
    """Optional version check followed by a struct literal of `f: Parse::parse(r)?` items."""
    items = []
    vm = re.search(r"let\s+version\s*=\s*u8::parse\s*\(\s*\w+\s*\)\s*\?", body)
    lit = re.search(r"Ok\s*\(\s*(?:Self|\w+)\s*\{", body)
    need(lit, f"{what}: struct literal not found in read")
    if vm:
        need(vm.start() < lit.start(), f"{what}: version read after the fields")
        need(re.search(r"version\s*!=\s*Self::VERSION", body), f"{what}: version not compared to VERSION")
        need(version is not None, f"{what}: VERSION read but not defined")
        items.append(("const", version))
    litbody = block_at(body, lit.end() - 1)
    for m in re.finditer(r"(\w+)\s*:\s*(Parse::parse|UpdateStatus::read)\s*\(\s*\w+\s*\)\s*\?", litbody):
        f = m.group(1)
        need(f in fields, f"{what}: reads unknown field {f}")
        if m.group(2) == "UpdateStatus::read":
            need(fields[f] == "updStatus", f"{what}: UpdateStatus::read for field {f}")
        else:
            need(fields[f] != "updStatus", f"{what}: Parse::parse for UpdateStatus field {f}")
        items.append(("field", f, fields[f]))
    need(len([i for i in items if i[0] == "field"]) == len(re.findall(r"\w+\s*:(?!:)", litbody)),
         f"{what}: unrecognised item in the struct literal of read")
    return items


def extract_store(src, params):
    layouts = []
    # --- StoredPointHeader
    fields = struct_fields(src, "StoredPointHeader")
    impl = impl_of(src, "StoredPointHeader")
    ver = version_of(impl, "StoredPointHeader")
    layouts.append(("storedPointHeader", "StoredPointHeader",
                    simple_write(fn_body(impl, "write", "StoredPointHeader"), fields, ver, "StoredPointHeader::write"),
                    simple_read(fn_body(impl, "read", "StoredPointHeader"), fields, ver, "StoredPointHeader::read")))
    # --- StoredManifest
    fields = struct_fields(src, "StoredManifest")
    impl = impl_of(src, "StoredManifest")
    layouts.append(("storedManifest", "StoredManifest",
                    simple_write(fn_body(impl, "write", "StoredManifest"), fields, None, "StoredManifest::write"),
                    simple_read(fn_body(impl, "read", "StoredManifest"), fields, None, "StoredManifest::read")))
    # --- StoredStatus
    fields = struct_fields(src, "StoredStatus")
    impl = impl_of(src, "StoredStatus")
    ver = version_of(impl, "StoredStatus")
    layouts.append(("storedStatus", "StoredStatus",
                    simple_write(fn_body(impl, "write", "StoredStatus"), fields, ver, "StoredStatus::write"),
                    simple_read(fn_body(impl, "read", "StoredStatus"), fields, ver, "StoredStatus::read")))
    # --- StoredObject (hand-written)
    fields = struct_fields(src, "StoredObject")
    need(fields == {"uri": "rsync", "hash": "optMftHash", "content": "bytes"},
         f"StoredObject fields changed: {fields}")
    impl = impl_of(src, "StoredObject")
    w = fn_body(impl, "write", "StoredObject")
    order = []
    for m in re.finditer(r"self\.(uri|content)\.compose\s*\(\s*\w+\s*\)\s*\?|match\s+self\.(hash)\.as_ref\(\)", w):
        order.append(m.group(1) or m.group(2))
    need(sorted(order) == ["content", "hash", "uri"], f"StoredObject::write: items {order}")
    wm = re.search(r"Some\(hash\)\s*if\s*hash\.algorithm\(\)\.is_sha256\(\)\s*=>\s*\{\s*(\w+)\.compose\(\w+\)\?;\s*"
                   r"\w+\.write_all\(hash\.as_slice\(\)\)\?;\s*\}\s*_\s*=>\s*\{\s*(\w+)\.compose\(\w+\)\?;\s*\}", w)
    need(wm, "StoredObject::write: hash arm shape changed")
    params["objHashSomeW"] = const_u8(wm.group(1), "StoredObject::write")
    params["objHashNoneW"] = const_u8(wm.group(2), "StoredObject::write")
    obj_write = [("field", f, fields[f]) for f in order]
    r = fn_body(impl, "read", "StoredObject")
    rorder = []
    for m in re.finditer(r"let\s+(uri)\s*=\s*match\s+uri::Rsync::parse\(\w+\)|let\s+(hash)\s*=\s*match\s+u8::parse\(\w+\)\?"
                         r"|let\s+(content)\s*=\s*Bytes::parse\(\w+\)\?", r):
        rorder.append(m.group(1) or m.group(2) or m.group(3))
    need(sorted(rorder) == ["content", "hash", "uri"], f"StoredObject::read: items {rorder}")
    need(rorder[0] == "uri" and re.search(r"Err\(err\)\s*if\s*err\.is_eof\(\)\s*=>\s*return\s+Ok\(None\)", r),
         "StoredObject::read: the EOF-means-end rule is no longer on the first field")
    rm = re.search(r"match\s+u8::parse\(\w+\)\?\s*\{\s*(\w+)\s*=>\s*None\s*,\s*(\w+)\s*=>\s*\{(.*?)\}\s*\w+\s*=>\s*\{\s*return\s+Err", r, re.S)
    need(rm, "StoredObject::read: hash arm shape changed")
    params["objHashNoneR"] = const_u8(rm.group(1), "StoredObject::read")
    params["objHashSomeR"] = const_u8(rm.group(2), "StoredObject::read")
    need(re.search(r"vec!\[0u8;\s*algorithm\.digest_len\(\)\]", rm.group(3)) and "read_exact" in rm.group(3),
         "StoredObject::read: hash body shape changed")
    need(re.search(r"Ok\(Some\(StoredObject\s*\{\s*uri\s*,\s*hash\s*,\s*content\s*\}\)\)", r),
         "StoredObject::read: result literal changed")
    obj_read = [("field", f, fields[f]) for f in rorder]
    layouts.append(("storedObject", "StoredObject", obj_write, obj_read))
    # --- UpdateStatus tags
    impl = impl_of(src, "UpdateStatus")
    r = fn_body(impl, "read", "UpdateStatus")
    arms = re.findall(r"(\w+)\s*=>\s*Ok\(UpdateStatus::(Success|LastAttempt)\(Parse::parse\(\w+\)\?\)\)", r)
    need(sorted(a[1] for a in arms) == ["LastAttempt", "Success"], f"UpdateStatus::read arms: {arms}")
    for tag, var in arms:
        params["stSuccessR" if var == "Success" else "stAttemptR"] = const_u8(tag, "UpdateStatus::read")
    w = fn_body(impl, "write", "UpdateStatus")
    arms = re.findall(r"Self::(Success|LastAttempt)\(time\)\s*=>\s*\{\s*(\w+)\.compose\(\w+\)\?;\s*time\.compose\(\w+\)\?;\s*\}", w)
    need(sorted(a[0] for a in arms) == ["LastAttempt", "Success"], f"UpdateStatus::write arms: {arms}")
    for var, tag in arms:
        params["stSuccessW" if var == "Success" else "stAttemptW"] = const_u8(tag, "UpdateStatus::write")
    return layouts


def extract_status_policy(src):
    """`Store::status`: is an unreadable (EOF / bad format) status file treated as missing?"""
    m = re.search(r"pub\s+fn\s+status\s*\(&self\)", src)
    need(m, "store: fn status not found")
    body = block_at(src, m.end())
    need("StoredStatus::read(" in body and re.search(r"Ok\(status\)\s*=>\s*Ok\(Some\(status\)\)", body) and
         re.search(r"Err\(Failed\)", body), "store: status shape changed")
    m = re.search(r"Err\(err\)\s*if\s*!err\.is_fatal\(\)\s*=>\s*\{(.*?)\}\s*Err\(err\)\s*=>", body, re.S)
    if m:
        need(re.search(r"Ok\(None\)\s*$", m.group(1).strip()), "store: status non-fatal arm shape changed")
        return True
    return False


def extract_state(src):
    fields = struct_fields(src, "RepositoryState")
    impl = impl_of(src, "RepositoryState")
    ver = version_of(impl, "RepositoryState")
    return [("repositoryState", "RepositoryState",
             simple_write(fn_body(impl, "compose", "RepositoryState"), fields, ver, "RepositoryState::compose"),
             simple_read(fn_body(impl, "parse", "RepositoryState"), fields, ver, "RepositoryState::parse"))]


def binio_impl(src, trait, ty):
    m = re.search(r"impl<[^>]*>\s*" + trait + r"<\w>\s*for\s*" + re.escape(ty) + r"\s*(?:where[^{]*)?\{", src)
    need(m, f"binio: impl {trait} for {ty} not found")
    return block_at(src, m.end() - 1)


def num(tok, what):
    tok = tok.strip()
    table = {"u64::MAX": 2 ** 64 - 1, "i64::MIN": -(2 ** 63), "u32::MAX": 2 ** 32 - 1, "i64::MAX": 2 ** 63 - 1}
    if tok in table:
        return table[tok]
    m = re.fullmatch(r"(-?\d+)(?:u8|u32|u64|i64|usize)?", tok)
    need(m, f"{what}: cannot read constant {tok!r}")
    return int(m.group(1))


def extract_binio(src, params):
    # byte order and widths of the integer primitives
    for ty, width in (("u32", 4), ("u64", 8), ("i64", 8)):
        cw = binio_impl(src, "Compose", ty)
        pr = binio_impl(src, "Parse", ty)
        need(re.search(r"self\.to_be_bytes\(\)", cw), f"binio: {ty} compose is not big-endian")
        need(re.search(ty + r"::from_be_bytes\(", pr) and re.search(r"0" + ty + r"\.to_ne_bytes\(\)", pr),
             f"binio: {ty} parse is not {width}-byte big-endian")
    need("slice::from_ref(self)" in binio_impl(src, "Compose", "u8"), "binio: u8 compose changed")
    need("slice::from_mut(&mut res)" in binio_impl(src, "Parse", "u8"), "binio: u8 parse changed")
    # Option<i64>
    cw = binio_impl(src, "Compose", "Option<i64>")
    m = re.search(r"Some\(value\)\s*=>\s*\{\s*(\w+)\.compose\(\w+\)\?;\s*value\.compose\(\w+\)\s*\}\s*None\s*=>\s*\{\s*(\w+)\.compose\(\w+\)\s*\}", cw)
    need(m, "binio: Option<i64> compose shape changed")
    params["optI64SomeW"], params["optI64NoneW"] = const_u8(m.group(1), "Option<i64>"), const_u8(m.group(2), "Option<i64>")
    pr = binio_impl(src, "Parse", "Option<i64>")
    m = re.search(r"match\s+u8::parse\(\w+\)\?\s*\{\s*(\w+)\s*=>\s*return\s+Ok\(None\)\s*,\s*(\w+)\s*=>\s*\{\s*\}\s*,\s*_\s*=>", pr)
    need(m and re.search(r"Ok\(Some\(i64::parse\(\w+\)\?\)\)", pr), "binio: Option<i64> parse shape changed")
    params["optI64NoneR"], params["optI64SomeR"] = const_u8(m.group(1), "Option<i64>"), const_u8(m.group(2), "Option<i64>")
    # URIs: u32 length prefix
    for ty in ("uri::Rsync", "uri::Https"):
        cw = binio_impl(src, "Compose", ty)
        need(re.search(r"u32::try_from\(self\.as_slice\(\)\.len\(\)\)", cw) and
             re.search(r"\w+\.write_all\(self\.as_slice\(\)\)", cw), f"binio: {ty} compose shape changed")
        pr = binio_impl(src, "Parse", ty)
        need(re.search(r"usize::try_from\(u32::parse\(\w+\)\?\)", pr) and re.search(r"Self::from_bytes\(", pr),
             f"binio: {ty} parse shape changed")
    cw = binio_impl(src, "Compose", "Option<uri::Https>")
    m = re.search(r"else\s*\{\s*(\w+)\.compose\(\w+\)\s*\}", cw)
    need(m and m.group(1).endswith("u32") and re.search(r"u32::try_from\(uri\.as_slice\(\)\.len\(\)\)", cw),
         "binio: Option<Https> compose shape changed")
    params["optHttpsNoneW"] = num(m.group(1), "Option<Https>")
    pr = binio_impl(src, "Parse", "Option<uri::Https>")
    m = re.search(r"let\s+len\s*=\s*u32::parse\(\w+\)\?;\s*if\s+len\s*==\s*([\w:]+)\s*\{\s*return\s+Ok\(None\)", pr)
    need(m and re.search(r"uri::Https::from_bytes\(", pr), "binio: Option<Https> parse shape changed")
    params["optHttpsNoneR"] = num(m.group(1), "Option<Https>")
    # Bytes: u64 length prefix
    cw = binio_impl(src, "Compose", "Bytes")
    need(re.search(r"u64::try_from\(self\.len\(\)\)", cw) and re.search(r"\w+\.write_all\(self\.as_ref\(\)\)", cw),
         "binio: Bytes compose shape changed")
    need(re.search(r"usize::try_from\(u64::parse\(\w+\)\?\)", binio_impl(src, "Parse", "Bytes")),
         "binio: Bytes parse shape changed")
    cw = binio_impl(src, "Compose", "Option<Bytes>")
    m = re.search(r"Some\(bytes\)\s*=>\s*bytes\.compose\(\w+\)\s*,\s*None\s*=>\s*([\w:]+)\.compose\(\w+\)", cw)
    need(m, "binio: Option<Bytes> compose shape changed")
    params["optBytesNoneW"] = num(m.group(1), "Option<Bytes>")
    pr = binio_impl(src, "Parse", "Option<Bytes>")
    m = re.search(r"let\s+len\s*=\s*u64::parse\(\w+\)\?;\s*if\s+len\s*==\s*([\w:]+)\s*\{\s*return\s+Ok\(None\)", pr)
    need(m, "binio: Option<Bytes> parse shape changed")
    params["optBytesNoneR"] = num(m.group(1), "Option<Bytes>")
    # fixed-size arrays
    need("self.as_bytes()" in binio_impl(src, "Compose", "Uuid") and
         "uuid::Bytes::default()" in binio_impl(src, "Parse", "Uuid"), "binio: Uuid shape changed")
    need("self.as_slice()" in binio_impl(src, "Compose", "rrdp::Hash") and
         "[0u8; 32]" in binio_impl(src, "Parse", "rrdp::Hash"), "binio: rrdp::Hash shape changed")
    need("self.into_array()" in binio_impl(src, "Compose", "Serial") and
         "[0u8; 20]" in binio_impl(src, "Parse", "Serial") and
         "Self::from_array(res)" in binio_impl(src, "Parse", "Serial"), "binio: Serial shape changed")
    # Time
    need(re.search(r"self\.timestamp\(\)\.compose\(", binio_impl(src, "Compose", "Time")), "binio: Time compose changed")
    need(re.search(r"Utc\.timestamp_opt\(\s*i64::parse\(\w+\)\?,\s*0\s*\)\.single\(\)", binio_impl(src, "Parse", "Time")),
         "binio: Time parse changed")
    cw = binio_impl(src, "Compose", "Option<Time>")
    m = re.search(r"Some\(time\)\s*=>\s*time\.timestamp\(\)\s*,\s*None\s*=>\s*([\w:]+)\s*\}\s*\.compose\(", cw)
    need(m, "binio: Option<Time> compose shape changed")
    params["optTimeNoneW"] = num(m.group(1), "Option<Time>")
    pr = binio_impl(src, "Parse", "Option<Time>")
    m = re.search(r"let\s+timestamp\s*=\s*i64::parse\(\w+\)\?;\s*if\s+timestamp\s*==\s*([\w:]+)\s*\{\s*Ok\(None\)", pr)
    need(m and re.search(r"Utc\.timestamp_opt\(\s*timestamp,\s*0\s*\)\.single\(\)", pr), "binio: Option<Time> parse shape changed")
    params["optTimeNoneR"] = num(m.group(1), "Option<Time>")
    # HashMap
    m = re.search(r"impl<K:\s*Compose<W>,\s*V:\s*Compose<W>,\s*W:\s*io::Write>\s*Compose<W>\s*for\s*HashMap<K,\s*V>\s*\{", src)
    need(m, "binio: HashMap compose impl not found")
    cw = block_at(src, m.end() - 1)
    need(re.search(r"u64::try_from\(self\.len\(\)\)", cw) and
         re.search(r"for\s*\(key,\s*value\)\s*in\s*self\s*\{\s*key\.compose\(\w+\)\?;\s*value\.compose\(\w+\)\?;\s*\}", cw),
         "binio: HashMap compose shape changed")
    m = re.search(r"impl<K,\s*V,\s*R>\s*Parse<R>\s*for\s*HashMap<K,\s*V>\s*where[^{]*\{", src)
    need(m, "binio: HashMap parse impl not found")
    pr = block_at(src, m.end() - 1)
    need(re.search(r"usize::try_from\(u64::parse\(\w+\)\?\)", pr) and
         re.search(r"for\s+_\s+in\s+0\.\.len\s*\{\s*if\s+res\.insert\(K::parse\(\w+\)\?,\s*V::parse\(\w+\)\?\)\.is_some\(\)", pr),
         "binio: HashMap parse shape changed")
    m = re.search(r"HashMap::with_capacity\(\s*cmp::(min|max)\(\s*len\s*,\s*(\d+)\s*\)\s*\)", pr)
    if m:
        # the cap applies to the pre-allocation only; the loop runs over the announced count
        need(not re.search(r"let\s+(mut\s+)?len\s*=\s*[^;]*;[^;]*HashMap::with_capacity", pr.split("usize::try_from", 1)[1].split(";", 1)[1]),
             "binio: HashMap parse re-binds `len` before the loop")
        params["mapCapMin"] = (m.group(1) == "min")
        params["mapCap"] = int(m.group(2))
        params["mapLoopCap"] = None
    else:
        # `let len = cmp::min(len, N); … with_capacity(len); for _ in 0..len`: the cap also
        # limits how many entries are read
        m = re.search(r"let\s+len\s*=\s*cmp::min\(\s*len\s*,\s*(\d+)\s*\)\s*;\s*let\s+mut\s+res\s*=\s*HashMap::with_capacity\(\s*len\s*\)\s*;", pr)
        need(m, "binio: HashMap pre-allocation shape changed")
        params["mapCapMin"] = True
        params["mapCap"] = int(m.group(1))
        params["mapLoopCap"] = int(m.group(1))
    # length-prefixed bodies: allocated up front from the declared length?
    unchecked = len(re.findall(r"vec!\[0u8;\s*len\]", src))
    if unchecked == 0:
        m = re.search(r"fn\s+read_vec\s*<", src)
        need(m, "binio: bodies are read neither via vec![0u8; len] nor via read_vec")
        body = block_at(src, m.end())
        need(re.search(r"source\.by_ref\(\)\.take\(limit\)\.read_to_end\(&mut bits\)\?;", body) and
             re.search(r"if\s+bits\.len\(\)\s*!=\s*len\s*\{", body) and "UnexpectedEof" in body and
             "source.read(" not in body and len(re.findall(r"read_vec\(source, len\)\?", src)) == 5,
             "binio: read_vec is no longer take(len).read_to_end + length check")
    params["readChecked"] = (unchecked == 0)


def extract_archive(src, params):
    """Which protections the archive reader has (C27)."""
    m = re.search(r"pub\s+fn\s+open\s*\(", src)
    need(m, "archive: fn open not found")
    body = block_at(src, m.end())
    need("ArchiveMeta::read(" in body and "FILE_MAGIC" in body, "archive: open shape changed")
    params["checkIndex"] = bool(re.search(r"\.check_index\(\)\?", body))
    if params["checkIndex"]:
        m = re.search(r"fn\s+check_index\s*\(", src)
        need(m, "archive: check_index not found")
        cb = block_at(src, m.end())
        need("bucket_count > 0" in cb and re.search(r"end\s*<=\s*self\.file\.size", cb),
             "archive: check_index shape changed")
    walkers = {}
    for name in ("find", "verify"):
        m = re.search(r"fn\s+" + name + r"\s*\(", src)
        need(m, f"archive: fn {name} not found")
        walkers[name] = "max_object_count()" in block_at(src, m.end())
    m = re.search(r"impl<'a,\s*Meta>\s*ObjectsIter<'a,\s*Meta>\s*\{", src)
    need(m, "archive: ObjectsIter impl not found")
    walkers["objects"] = "max_object_count()" in block_at(src, m.end() - 1)
    params["boundWalks"] = all(walkers.values())
    if params["boundWalks"]:
        m = re.search(r"fn\s+max_object_count\s*\(&self\)\s*->\s*u64\s*\{\s*self\.file\.size\s*/\s*ObjectHeader::SIZE\s*\+\s*1\s*\}", src)
        need(m, "archive: max_object_count shape changed")
    need(re.search(r"const\s+DEFAULT_BUCKET_COUNT\s*:\s*usize\s*=\s*1024\s*;", src), "archive: bucket count changed")


def lean_item(item):
    if item[0] == "const":
        return f".const {item[1]}"
    return f'.field "{item[1]}" .{item[2]}'


def lean_int(v):
    return f"({v})" if v < 0 else str(v)


def main():
    params = {}
    layouts = []
    try:
        store = load("src/store.rs")
        layouts += extract_store(store, params)
        status_none = extract_status_policy(store)
        layouts += extract_state(load("src/collector/rrdp/archive.rs"))
        extract_binio(load("src/utils/binio.rs"), params)
        aparams = {}
        extract_archive(load("src/utils/archive.rs"), aparams)
    except Shape as e:
        print(f"layouts.py: SOURCE SHAPE CHANGED: {e}")
        return 1
    order = ["optI64NoneW", "optI64SomeW", "optI64NoneR", "optI64SomeR", "optHttpsNoneW", "optHttpsNoneR",
             "optBytesNoneW", "optBytesNoneR", "optTimeNoneW", "optTimeNoneR",
             "stSuccessW", "stAttemptW", "stSuccessR", "stAttemptR",
             "objHashNoneW", "objHashSomeW", "objHashNoneR", "objHashSomeR",
             "readChecked", "mapCapMin", "mapCap", "mapLoopCap"]
    missing = [k for k in order if k not in params]
    if missing:
        print(f"layouts.py: SOURCE SHAPE CHANGED: parameters not found: {missing}")
        return 1
    out = []
    out.append("import RoutinatorModel.Model.Records")
    out.append("import RoutinatorModel.Model.ArchiveRead")
    out.append("/-! GENERATED by extract/layouts.py from src/store.rs, src/collector/rrdp/archive.rs,")
    out.append("src/utils/binio.rs — do not edit. -/")
    out.append("namespace RoutinatorModel.Codec.Generated")
    out.append("")
    out.append("def params : Params where")
    for k in order:
        v = params[k]
        if k == "mapLoopCap":
            out.append(f"  {k} := {'none' if v is None else 'some ' + str(v)}")
        elif isinstance(v, bool):
            out.append(f"  {k} := {'true' if v else 'false'}")
        else:
            out.append(f"  {k} := {lean_int(v)}")
    out.append("")
    out.append("def archiveParams : ArchiveParams where")
    for k in ("checkIndex", "boundWalks"):
        out.append(f"  {k} := {'true' if aparams[k] else 'false'}")
    out.append("")
    for ident, name, w, r in layouts:
        out.append(f"def {ident} : RecLayout where")
        out.append(f'  name := "{name}"')
        out.append("  write := [" + ", ".join(lean_item(i) for i in w) + "]")
        out.append("  read := [" + ", ".join(lean_item(i) for i in r) + "]")
        out.append("")
    out.append("def layouts : List RecLayout := [" + ", ".join(l[0] for l in layouts) + "]")
    out.append("")
    out.append("def pointLayouts : PointLayouts := ⟨storedPointHeader, storedManifest, storedObject⟩")
    out.append("")
    out.append("/-- `Store::status` maps an unreadable status file to `Ok(None)`. -/")
    out.append(f"def statusUnreadableIsNone : Bool := {'true' if status_none else 'false'}")
    out.append("")
    out.append("end RoutinatorModel.Codec.Generated")
    text = "\n".join(out) + "\n"
    os.makedirs(os.path.dirname(OUT), exist_ok=True)
    old = open(OUT, encoding="utf8").read() if os.path.exists(OUT) else None
    if old != text:
        with open(OUT, "w", encoding="utf8") as f:
            f.write(text)
    print(f"layouts.py: {len(layouts)} layouts, params {params}, archive {aparams}")
    return 0


if __name__ == "__main__":
    sys.exit(main())
