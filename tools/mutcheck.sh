#!/bin/bash
# Runs checks against a mutated copy of /repo without touching /repo or the
# committed evidence:
#     tools/mutcheck.sh <patch.diff> Cxx [Cyy ...]
# The scratch tree = /repo HEAD + /repo's uncommitted working-tree changes (hooks and
# fixes under construction) + the patch. Uses one of a few persistent slots under
# /tmp/mutcache (scratch worktree + harness copy with its own target dir, so that
# only what changed is rebuilt); slots are locked, the worktree is reset on entry.
# Env: MUT_TIER=quick|thorough, MUT_KEEP=<dir> (copy replays there), MUT_REVERSE=1
# (apply the patch with -R, e.g. to revert a fix).
# Output: one line per check, "Cxx: rc=<0|1> <VIOLATION/KNOWN lines> | <summary>".
set -u
PATCH=$(readlink -f "$1"); shift
mkdir -p /tmp/mutcache
SLOT=""
for i in 0 1 2 3 4 5; do
  exec 9>/tmp/mutcache/s$i.lock
  if flock -n 9; then SLOT=/tmp/mutcache/s$i; break; fi
done
if [ -z "$SLOT" ]; then exec 9>/tmp/mutcache/s0.lock; flock 9; SLOT=/tmp/mutcache/s0; fi
W=$SLOT
mkdir -p $W
if [ ! -e $W/repo/.git ]; then
  git -C /repo worktree prune
  git -C /repo worktree add --detach $W/repo HEAD >/dev/null 2>&1 || { echo "worktree failed"; exit 2; }
fi
git -C $W/repo checkout -q --detach "$(git -C /repo rev-parse HEAD)" 2>/dev/null
git -C $W/repo reset -q --hard
git -C $W/repo clean -qfd
git -C /repo diff HEAD > $W/wt.diff
if [ -s $W/wt.diff ]; then
  git -C $W/repo apply $W/wt.diff || { echo "working-tree diff does not apply"; exit 2; }
fi
if [ -n "${MUT_REVERSE:-}" ]; then
  git -C $W/repo apply -R "$PATCH" || { echo "patch does not apply (reverse)"; exit 2; }
else
  git -C $W/repo apply "$PATCH" || { echo "patch does not apply"; exit 2; }
fi
mkdir -p $W/harness
rsync -a --delete --exclude target /verif/harness/ $W/harness/
sed -i "s#path = \"/repo\"#path = \"$W/repo\"#" $W/harness/Cargo.toml
rm -rf $W/out; mkdir -p $W/out
for c in "$@"; do
  out=$(cd /verif && VERIF_HARNESS_DIR=$W/harness VERIF_OUT_DIR=$W/out VERIF_REPO=$W/repo ./check $c ${MUT_TIER:+--tier $MUT_TIER} 2>&1)
  rc=$?
  echo "$c: rc=$rc $(echo "$out" | grep -E 'VIOLATION|KNOWN-FINDING' | head -3 | tr '\n' ' ') | $(echo "$out" | grep -E "^$c " | tail -1)"
  if [ -n "${MUT_KEEP:-}" ]; then mkdir -p "$MUT_KEEP"; cp -r $W/out/replays "$MUT_KEEP/" 2>/dev/null; fi
done
git -C $W/repo reset -q --hard
