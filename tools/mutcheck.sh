#!/bin/bash
# Runs checks against a mutated copy of /repo without touching /repo or the
# committed evidence:   tools/mutcheck.sh <patch.diff> Cxx [Cyy ...]
# The patch is applied to a scratch git worktree of /repo's HEAD; a scratch copy
# of the harness (dependencies reused) is pointed at it. Everything is removed at
# the end. Output: one line per check, "Cxx: rc=<0|1> <last line>".
set -u
PATCH=$(readlink -f "$1"); shift
W=/tmp/mut-$$
trap 'git -C /repo worktree remove --force $W/repo >/dev/null 2>&1; rm -rf $W' EXIT
mkdir -p $W
git -C /repo worktree add --detach $W/repo HEAD >/dev/null 2>&1 || { echo "worktree failed"; exit 2; }
if ! git -C $W/repo apply "$PATCH"; then echo "patch does not apply"; exit 2; fi
mkdir -p $W/harness
(cd /verif/harness && tar cf - --exclude=./target/debug/incremental . ) | (cd $W/harness && tar xf -)
sed -i "s#path = \"/repo\"#path = \"$W/repo\"#" $W/harness/Cargo.toml
mkdir -p $W/out
for c in "$@"; do
  out=$(cd /verif && VERIF_HARNESS_DIR=$W/harness VERIF_OUT_DIR=$W/out VERIF_REPO=$W/repo ./check $c ${MUT_TIER:+--tier $MUT_TIER} 2>&1)
  rc=$?
  echo "$c: rc=$rc $(echo "$out" | grep -E 'VIOLATION|KNOWN-FINDING' | head -3 | tr '\n' ' ') | $(echo "$out" | grep -E "^$c " | tail -1)"
  if [ -n "${MUT_KEEP:-}" ]; then mkdir -p "$MUT_KEEP"; cp -r $W/out/replays "$MUT_KEEP/" 2>/dev/null; fi
done
