#!/usr/bin/env python3
"""Regenerates MANIFEST.json from checks/*.json (enabled ones) and not_applicable.json."""
import glob, json, os
V = os.path.dirname(os.path.dirname(os.path.abspath(__file__)))
checks = []
claimed = set()
for p in sorted(glob.glob(os.path.join(V, "checks", "C*.json"))):
    c = json.load(open(p))
    if not c.get("enabled"):
        continue
    pid = c["id"]
    claimed.add(pid)
    note = c.get("level_note", "")
    if c.get("partial"):
        note = "PARTIAL: " + note
    checks.append({
        "property_id": pid,
        "quick_cmd": f"./check {pid} --tier quick",
        "thorough_cmd": f"./check {pid} --tier thorough",
        "evidence_file": f"/verif/evidence/{pid}.json",
        "replay_cmd_template": f"./check {pid} --replay {{path}}",
        "engine": "lean4-model+rust-correspondence",
        "level_claimed": {"category": c.get("level", "proof"), "text": c["level_text"],
                          "design_ref": c.get("design_ref", "DESIGN.md §8")},
        "level_note": note,
        "technique": c.get("technique", "Lean 4 proof + correspondence check"),
    })
props = [json.loads(l)["id"] for l in open(os.path.join(V, "properties.jsonl"))]
na_reasons = {}
nap = os.path.join(V, "not_applicable.json")
if os.path.exists(nap):
    na_reasons = json.load(open(nap))
na = []
for pid in props:
    if pid not in claimed:
        na.append({"property_id": pid, "reason": na_reasons.get(
            pid, "not yet claimed: model/theorems/correspondence for this property are not built yet "
                 "(planned in DESIGN.md §8; nothing about the technique prevents it)")})
hooks_commits = []
hp = os.path.join(V, "hook_commits.txt")
if os.path.exists(hp):
    hooks_commits = [l.split()[0] for l in open(hp) if l.strip()]
manifest = {
    "version": 1,
    "setup_cmd": "./setup.sh",
    "hooks": {
        "guard": "cargo feature `verif-hooks` (off by default)",
        "enable": "the harness crate depends on routinator with features = [\"verif-hooks\"]; "
                  "cd /verif/harness && cargo build --offline",
        "baseline_off_cmd": "cd /repo && cargo test --workspace --no-fail-fast --offline",
        "source_commits": hooks_commits,
        "add_only": True,
    },
    "engines": [{
        "name": "lean4-model+rust-correspondence",
        "path": "/verif/lean, /verif/harness, /verif/check",
        "serves_properties": sorted(claimed),
        "kind_free_text": "Lean 4 models and theorems (lake project RoutinatorModel, one driver executable drv-<group> per group) tied to /repo "
                          "by a Rust harness that runs the real code and the model on the same generated cases",
    }],
    "checks": checks,
    "not_applicable": na,
    "notes": "Every check is `./check Cxx`: builds the property's Lean theorem module (+ axiom audit), rebuilds the "
             "harness against /repo's working tree, runs real code + oracle + model, writes evidence/Cxx.json.",
}
json.dump(manifest, open(os.path.join(V, "MANIFEST.json"), "w"), indent=1)
print(f"{len(checks)} checks, {len(na)} not claimed")
