#!/usr/bin/env python3
"""Prints the prompt for an independent 'breaker' sub-agent for property Cxx (given only the property text)."""
import json, sys
pid = sys.argv[1]; wt = sys.argv[2]
p = next(json.loads(l) for l in open('/verif/properties.jsonl') if json.loads(l)['id'] == pid)
print(f"""You are testing how robust a semantic property of NLnetLabs/routinator (an RPKI relying-party validator written in Rust) is against realistic regressions. You work ONLY in your own scratch git worktree of the repository at {wt} (it is a `git worktree` of the project at its current commit; do not touch /repo, do not look at or use anything under /verif). No network: use `cargo build --offline`, `cargo test --offline` (CARGO_NET_OFFLINE=true). The first build in the worktree takes a few minutes.

Property {p['id']}: {p['title']}
Statement: {p['statement']}
Quantified over: {p['quantifier']['text']}
Anchored in: {', '.join(p['anchors']['files'])}

Your job: produce ONE source change to routinator (a small, realistic patch of the kind a maintainer could plausibly make by mistake during a refactoring, optimisation or feature tweak — not sabotage that any use would expose at once) that makes the property FALSE, while
 (a) the crate still compiles (`cargo build --offline`, default features) and
 (b) the existing test suite still passes unchanged (`cargo test --offline`; 31 tests pass on the unmodified tree).
The violation should need something specific to manifest: a particular boundary value, an unusual but legal input, a multi-step sequence of operations, a particular interleaving or crash point, or two cooperating sites that each look fine alone. Do not change any test. Do not touch `src/verif.rs` or anything guarded by the `verif-hooks` feature.

Also write a demonstration: a Rust test file or small program (e.g. an integration test under `tests/` or an `examples/` program using the library's public API, or a `#[cfg(test)]` unit test appended to a source file) that FAILS with your change and PASSES without it, showing the property violation concretely. Verify both directions yourself (stash/apply the source change).

Deliver, inside the worktree, a directory `_seed/` containing:
  patch.diff  — `git diff` of the source change ONLY (not the demonstration), applying cleanly to the worktree's HEAD with `git apply`;
  demo.diff   — the demonstration as a separate diff (new files or appended tests), applying cleanly on top of HEAD with or without patch.diff;
  meta.json   — {{"property": "{p['id']}", "summary": "...what the change does...", "needs": "...what is needed for the violation to manifest...", "demo_cmd": "...exact command that runs the demonstration...", "verified": "...what you ran and what you saw, both directions, plus the result of the full existing test suite with the patch..."}}
Leave the worktree's tracked files in their ORIGINAL state at the end (git stash/checkout your edits after producing the diffs; keep only the untracked `_seed/` directory). Your final message: the summary, what it needs to manifest, and the verification you did.""")
