#!/bin/bash
# Verifies a seeded change: tools/verify_seed.sh <dir with patch.diff demo.diff meta.json>
#  1. patch applies to /repo HEAD, crate builds, existing tests pass with it (and nothing else)
#  2. demo passes without the patch, fails with it
# Works in a scratch worktree under /tmp, removed at the end. Prints PASS/FAIL per step.
set -u
D=$(readlink -f "$1")
# persistent scratch worktree (keeps its target/ dir so that builds are incremental); locked
mkdir -p /tmp/vscache
exec 9>/tmp/vscache/lock; flock 9
W=/tmp/vscache/w
export CARGO_NET_OFFLINE=true
if [ ! -e $W/.git ]; then
  git -C /repo worktree prune
  git -C /repo worktree add --detach $W HEAD >/dev/null 2>&1 || { echo "FAIL worktree"; exit 2; }
fi
cd $W
git checkout -q --detach "$(git -C /repo rev-parse HEAD)"; git reset -q --hard; git clean -qfd
trap 'cd $W && git reset -q --hard && git clean -qfd' EXIT
DEMO=$(python3 -c "import json,sys;print(json.load(open('$D/meta.json'))['demo_cmd'])")
echo "demo_cmd: $DEMO"
git apply "$D/patch.diff" || { echo "FAIL patch does not apply"; exit 1; }
cargo build --offline >/dev/null 2>$W/build.log || { echo "FAIL build with patch"; tail -20 $W/build.log; exit 1; }
echo "PASS build with patch"
cargo test --offline 2>&1 | grep -E "^test result" > $W/tests.log
cat $W/tests.log
if grep -q "FAILED\|failed; [1-9]" $W/tests.log || ! grep -q "31 passed" $W/tests.log; then
  if grep -q " [1-9][0-9]* failed" $W/tests.log; then echo "FAIL existing tests fail with patch"; exit 1; fi
fi
echo "PASS existing tests with patch"
git apply "$D/demo.diff" || { echo "FAIL demo does not apply on patched tree"; exit 1; }
if (eval "$DEMO") >$W/demo1.log 2>&1; then echo "FAIL demo passes WITH the patch"; tail -5 $W/demo1.log; exit 1; else echo "PASS demo fails with patch"; tail -8 $W/demo1.log | sed 's/^/    /'; fi
git apply -R "$D/patch.diff" || { echo "FAIL cannot revert patch"; exit 1; }
if (eval "$DEMO") >$W/demo2.log 2>&1; then echo "PASS demo passes without patch"; else echo "FAIL demo fails WITHOUT the patch"; tail -20 $W/demo2.log; exit 1; fi
echo "SEED-OK"
