#!/usr/bin/env python3
"""setup: builds, offline, exactly what the enabled checks need (theorem modules, drivers, harness packages)."""
import glob, json, os, subprocess, sys
V = os.path.dirname(os.path.dirname(os.path.abspath(__file__)))
mods, drivers, pkgs = [], [], []
for p in sorted(glob.glob(os.path.join(V, "checks", "C*.json"))):
    c = json.load(open(p))
    if not c.get("enabled"):
        continue
    for lst, v in ((mods, c["lean_module"]), (drivers, c["driver"]), (pkgs, c["rv"])):
        if v not in lst:
            lst.append(v)
env = dict(os.environ, CARGO_NET_OFFLINE="true", VERIF_DIR=V)
rc = 0
# extractors first (Generated/*.lean must exist before lake build)
for p in sorted(glob.glob(os.path.join(V, "checks", "C*.json"))):
    c = json.load(open(p))
    if c.get("enabled"):
        for ex in c.get("extractors", []):
            rc |= subprocess.call([sys.executable, os.path.join(V, "extract", ex)], cwd=V, env=env)
rc |= subprocess.call(["lake", "build"] + mods + drivers, cwd=os.path.join(V, "lean"), env=env)
cmd = ["cargo", "build", "--offline"]
for p in pkgs:
    cmd += ["-p", p]
rc |= subprocess.call(cmd, cwd=os.path.join(V, "harness"), env=env)
sh = os.path.join(V, "tools", "setup_extra.sh")
if os.path.exists(sh):
    rc |= subprocess.call(["sh", sh], cwd=V, env=env)
sys.exit(1 if rc else 0)
