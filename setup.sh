#!/bin/sh
# Builds the framework from files on disk only (offline).
set -e
cd "$(dirname "$0")"
export CARGO_NET_OFFLINE=true
(cd lean && lake build)
(cd harness && cargo build --offline --workspace)
