#!/bin/sh
# Builds the framework from files on disk only (offline).
cd "$(dirname "$0")" && exec python3 tools/setup.py
